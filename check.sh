#!/bin/bash
# usage: check.sh <property-id> [quick|thorough]
# Decides one property with gvc against /repo's current working tree.
cd "$(dirname "$0")"
export GOPROXY=off GOSUMDB=off GOTOOLCHAIN=local GOFLAGS=-mod=mod
if [ ! -x bin/gvc ] || [ -n "$(find tool/cmd -newer bin/gvc -name '*.go' 2>/dev/null | head -1)" ]; then
  ./setup.sh >/dev/null || { echo "BROKEN-CHECK: gvc does not build"; exit 3; }
fi
tier="${2:-${VERIF_TIER:-quick}}"
# -verif: every input (props, contracts of dependencies, preludes, lemmas, corpus) and
# every output (evidence, replays) of a run belongs to the directory this script lives in
exec bin/gvc check -prop "$1" -tier "$tier" -verif "$PWD"
