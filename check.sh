#!/bin/bash
# usage: check.sh <property-id> [quick|thorough]
# Decides one property with gvc against /repo's current working tree.
cd "$(dirname "$0")"
export GOPROXY=off GOSUMDB=off GOTOOLCHAIN=local GOFLAGS=-mod=mod
if [ ! -x bin/gvc ] || [ -n "$(find tool/cmd -newer bin/gvc -name '*.go' 2>/dev/null | head -1)" ]; then
  ./setup.sh >/dev/null || { echo "BROKEN-CHECK: gvc does not build"; exit 3; }
fi
tier="${2:-${VERIF_TIER:-quick}}"
exec bin/gvc check -prop "$1" -tier "$tier"
