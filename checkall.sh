#!/bin/bash
# Runs every claimed check on the current tree (evidence rewritten); prints one line per property.
cd "$(dirname "$0")"
rc=0
for p in $(python3 -c "import json;print(' '.join(c['property_id'] for c in json.load(open('MANIFEST.json'))['checks']))"); do
  out=$(./check.sh $p ${1:-quick} 2>&1); e=$?
  echo "$(echo "$out" | tail -1) [exit $e]"
  [ $e -ne 0 ] && { rc=1; echo "$out" | grep -E "^(VIOLATION|BROKEN)" | head -5 | cut -c1-300; }
done
exit $rc
