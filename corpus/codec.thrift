// Corpus schema for C01 / C05: shapes the repository schemas lack — typedefs of
// typedefs of containers and binaries in required position, defaults on maps,
// sets, doubles and typedef'd scalars, containers of containers (nil inner
// values), service functions with defaulted arguments.

typedef map<string, i32> Hits
typedef Hits Hits2
typedef set<string> Names
typedef Names Names2
typedef binary Raw
typedef Raw Raw2
typedef i64 Millis
typedef double Fraction

struct Deep {
    1: required Hits2 hits
    2: required Names2 names
    3: required Raw2 raw
    4: optional Hits2 ohits
}

struct Defaulted {
    1: optional map<string, i32> weights = {"a": 1}
    2: optional set<i32> codes = [1, 2]
    3: optional list<string> words = ["x"]
    4: optional double ratio = 0.30000000000000004
    5: optional double big = 9007199254740991
    6: optional Millis wait = 250
    7: optional Fraction part = 1.0000000000000002
    8: optional string name = "anon"
    9: optional bool on = true
    10: optional i8 tiny = -7
    11: optional i32 zero = 0
    12: optional string empty = ""
    13: optional double dzero = 0.0
    14: optional bool off = false
    15: optional i64 lzero = 0
}

struct Flags {
    1: optional list<bool> bits
    2: optional set<bool> seen
    3: optional list<byte> raw
    4: optional list<double> ds
    5: optional map<bool, byte> bb
}

struct Nests {
    1: optional map<string, list<i64>> byName
    2: optional list<list<string>> rows
    3: optional map<i32, map<string, i32>> grid
    4: optional set<list<i32>> combos
}

service Pager {
    list<string> page(1: string cursor, 2: i32 limit = 50, 3: double weight = 0.1)
    void touch(1: required string id, 2: optional bool hard = false)
}
