// Corpus schema for C14: every type constructor in required and optional
// position, typedefs of scalars / containers / structs, hashable and
// unhashable set elements and map keys, recursive structs, a union and an
// exception.

enum Colour { RED = 1, GREEN = 2, BLUE = 3 }

typedef string Label
typedef i64 Stamp
typedef double Ratio
typedef binary Blob
typedef Colour Shade
typedef list<string> Labels
typedef set<i32> Codes
typedef map<string, i64> Counters
typedef Point Vertex

struct Point { 1: required double x; 2: required double y }

struct Scalars {
    1: required bool rb;     2: optional bool ob
    3: required i8 r8;       4: optional i8 o8
    5: required i16 r16;     6: optional i16 o16
    7: required i32 r32;     8: optional i32 o32
    9: required i64 r64;     10: optional i64 o64
    11: required double rd;  12: optional double od
    13: required string rs;  14: optional string os
    15: required binary rbin; 16: optional binary obin
    17: required Colour rc;  18: optional Colour oc
    19: required Label rl;   20: optional Label ol
    21: required Stamp rst;  22: optional Stamp ost
    23: required Ratio rr;   24: optional Ratio orr
    25: required Blob rbl;   26: optional Blob obl
    27: required Shade rsh;  28: optional Shade osh
}

struct Nested {
    1: required Point rp
    2: optional Point op
    3: required Vertex rv
    4: optional Vertex ov
    5: optional Nested tail
}

struct Lists {
    1: required list<i32> ri
    2: optional list<string> os
    3: required list<Point> rp
    4: optional list<list<i64>> oll
    5: required Labels rl
    6: optional list<Colour> oc
    7: optional list<binary> ob
    8: optional list<double> od
}

struct Sets {
    1: required set<i32> ri
    2: optional set<string> os
    3: optional set<Colour> oc
    4: required Codes rc
    5: optional set<Point> op
    6: optional set<list<string>> ol
    7: optional set<binary> ob
}

struct Maps {
    1: required map<string, i32> rsi
    2: optional map<i64, string> ois
    3: optional map<string, Point> osp
    4: optional map<Colour, list<string>> ocl
    5: required Counters rc
    6: optional map<Point, string> ops
    7: optional map<list<i32>, Point> olp
    8: optional map<binary, i32> obi
    9: optional map<string, map<string, i32>> omm
}

struct TypedefContainers {
    1: optional Labels ol
    2: optional Codes oc
    3: optional Counters ocn
    4: required Vertex rv
    5: optional set<double> od
    6: optional set<i64> o64
    7: optional set<bool> ob
    8: optional map<double, string> mds
    9: optional map<i32, set<string>> mis
    10: optional map<string, list<double>> msl
    11: optional set<Ratio> sr
    12: optional list<Counters> lc
}

union Choice {
    1: string text
    2: i64 number
    3: Point point
    4: list<Point> path
    5: set<string> tags
}

exception Failure {
    1: required string reason
    2: optional i32 code
    3: optional Point where
}
