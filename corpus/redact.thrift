// Corpus schema for C15: go.redact / go.nolog on fields of the kinds the
// non-interference obligations can name (scalars, strings, binaries, enums;
// required, optional, defaulted) in structs, unions and exceptions, next to
// visible fields of every kind.

enum Level { LOW = 1, HIGH = 2 }

struct Inner { 1: required string shown; 2: optional string hidden (go.redact) }

struct Account {
    1: required string owner
    2: required string password (go.redact)
    3: optional string token (go.redact)
    4: optional i64 balance (go.redact)
    5: required i32 pin (go.redact)
    6: optional binary key (go.redact)
    7: optional Level level (go.redact)
    8: optional bool flagged (go.redact)
    9: optional double score (go.redact)
    10: optional string note
    11: optional Inner inner
    12: optional list<string> tags
    13: optional map<string, i32> counts
    14: optional string internal (go.nolog)
    15: required i64 trace (go.nolog)
    16: optional string both (go.redact, go.nolog)
    17: optional i32 withDefault = 7 (go.redact)
}

union Credential {
    1: string password (go.redact)
    2: binary cert (go.redact)
    3: i64 id
}

exception AuthFailure {
    1: required string reason
    2: optional string user (go.redact)
    3: optional string session (go.nolog)
}

// every visible field a scalar: the zap log is specified exactly (labels and values)
struct Plain {
    1: required string name
    2: optional i32 count
    3: optional string secret (go.redact)
    4: required i64 stamp
    5: optional bool flag
    6: optional double ratio
    7: required string hidden (go.nolog)
    8: optional i16 small
    9: optional i8 tiny
    10: required bool on
}
