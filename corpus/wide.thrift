// Corpus schema for the instance checks: shapes the repository's own test
// schemas lack (wide structs, wide unions, many defaults, nested containers
// with struct keys). Used by gvc inst in both tiers.

enum Color { RED = 1, GREEN = 2, BLUE = 3 }

struct Coord { 1: required double lat; 2: required double lon }

struct Wide {
    1: required i64 id
    2: optional string name
    3: optional i32 region
    4: optional bool flag
    5: optional i8 tiny
    6: optional i16 small
    7: optional double ratio
    8: optional binary blob
    9: optional Color color
    10: optional Coord where
    11: optional list<string> tags
    12: optional set<i32> ids
    13: optional map<string, i64> counts
    14: optional list<Coord> path
    15: optional map<i32, list<string>> groups
    16: optional i32 f16
    17: optional i32 f17
    18: optional i32 f18
    19: optional list<list<i32>> matrix
    20: required string tail
}

union Choice {
    1: bool b
    2: i8 i8v
    3: i16 i16v
    4: i32 i32v
    5: i64 i64v
    6: double d
    7: string s
    8: binary bin
    9: list<string> items
    10: Coord coord
    11: map<string, i32> m
}

struct ManyDefaults {
    1: optional i32 d1 = 1
    2: optional i32 d2 = 2
    3: optional i64 d3 = 3
    4: optional string d4 = "four"
    5: optional bool d5 = true
    6: optional double d6 = 6.5
    7: optional i8 d7 = 7
    8: optional i16 d8 = 8
    9: optional list<string> d9 = ["none"]
    10: optional list<i32> d10 = [1, 2]
    11: optional Color d11 = Color.GREEN
    12: optional i32 d12 = 12
    13: optional i32 d13 = 13
    14: optional i32 d14 = 14
    15: optional i32 d15 = 15
    16: optional string d16 = "sixteen"
    17: optional map<string, i32> d17 = {"a": 1}
    18: required i32 d18 = 18
    19: optional set<string> d19 = ["x"]
}

struct Keyed {
    1: optional map<Coord, string> byCoord
    2: optional set<Coord> coords
    3: optional map<string, map<i32, Coord>> nested
}

exception Oops { 1: required string why; 2: optional i32 code; 3: optional list<Wide> context }
