; include: thriftbin.smt2
; bool: the reader accepts only 0/1 (ReadBool#post(strict)) and the writer emits
; exactly 0/1 (WriteBool#post(bytes)), so write(read(b)) == b on the success domain.
(declare-const b (_ BitVec 8))
(declare-const r Bool)
(declare-const out (_ BitVec 8))
(assert (or (= b #x00) (= b #x01)))          ; reader success domain
(assert (= r (= b #x01)))                    ; reader value
(assert (and (=> r (= out #x01)) (=> (not r) (= out #x00))))  ; writer bytes
(assert (not (= out b)))
(check-sat)
