; include: thriftbin.smt2
; double: both sides carry the 64 IEEE bits (Float64bits / Float64frombits are bit casts):
; written bits == bits(d), read bits == be64at(...), hence bit-for-bit round trip incl. NaN payloads.
(declare-const w (Array (_ BitVec 64) (_ BitVec 8)))
(declare-const q (_ BitVec 64))
(declare-const d (_ BitVec 64))
(assert (= (be64at w q) d))
(declare-const r (_ BitVec 64))
(assert (= r (be64at w q)))
(assert (not (= r d)))
(check-sat)
