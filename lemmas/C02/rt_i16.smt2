; include: thriftbin.smt2
; Pair lemma for i16: the reader's spec applied to the bytes the writer's spec
; produces gives back the value, and the writer's spec applied to the value the
; reader's spec extracts reproduces the consumed bytes (canonicity).
(declare-const w (Array (_ BitVec 64) (_ BitVec 8)))   ; writer output
(declare-const a (Array (_ BitVec 64) (_ BitVec 8)))   ; reader input
(declare-const q (_ BitVec 64))
(declare-const p (_ BitVec 64))
(declare-const x (_ BitVec 16))
; writer post: be16at(w, q) == x ; the reader sees the same bytes at p
(assert (= (be16at w q) x))
(assert (= (select a (bvadd p (_ bv0 64))) (select w (bvadd q (_ bv0 64)))))
(assert (= (select a (bvadd p (_ bv1 64))) (select w (bvadd q (_ bv1 64)))))
; negated claim: reader result differs from x, or re-encoding the reader's value differs from the bytes consumed
(declare-const w2 (Array (_ BitVec 64) (_ BitVec 8)))
(declare-const q2 (_ BitVec 64))
(assert (= (be16at w2 q2) (be16at a p)))
(assert (or (not (= (be16at a p) x))
  (not (= (select w2 (bvadd q2 (_ bv0 64))) (select a (bvadd p (_ bv0 64)))))
  (not (= (select w2 (bvadd q2 (_ bv1 64))) (select a (bvadd p (_ bv1 64)))))))
(check-sat)
