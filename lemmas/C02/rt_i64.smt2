; include: thriftbin.smt2
; Pair lemma for i64: the reader's spec applied to the bytes the writer's spec
; produces gives back the value, and the writer's spec applied to the value the
; reader's spec extracts reproduces the consumed bytes (canonicity).
(declare-const w (Array (_ BitVec 64) (_ BitVec 8)))   ; writer output
(declare-const a (Array (_ BitVec 64) (_ BitVec 8)))   ; reader input
(declare-const q (_ BitVec 64))
(declare-const p (_ BitVec 64))
(declare-const x (_ BitVec 64))
; writer post: be64at(w, q) == x ; the reader sees the same bytes at p
(assert (= (be64at w q) x))
(assert (= (select a (bvadd p (_ bv0 64))) (select w (bvadd q (_ bv0 64)))))
(assert (= (select a (bvadd p (_ bv1 64))) (select w (bvadd q (_ bv1 64)))))
(assert (= (select a (bvadd p (_ bv2 64))) (select w (bvadd q (_ bv2 64)))))
(assert (= (select a (bvadd p (_ bv3 64))) (select w (bvadd q (_ bv3 64)))))
(assert (= (select a (bvadd p (_ bv4 64))) (select w (bvadd q (_ bv4 64)))))
(assert (= (select a (bvadd p (_ bv5 64))) (select w (bvadd q (_ bv5 64)))))
(assert (= (select a (bvadd p (_ bv6 64))) (select w (bvadd q (_ bv6 64)))))
(assert (= (select a (bvadd p (_ bv7 64))) (select w (bvadd q (_ bv7 64)))))
; negated claim: reader result differs from x, or re-encoding the reader's value differs from the bytes consumed
(declare-const w2 (Array (_ BitVec 64) (_ BitVec 8)))
(declare-const q2 (_ BitVec 64))
(assert (= (be64at w2 q2) (be64at a p)))
(assert (or (not (= (be64at a p) x))
  (not (= (select w2 (bvadd q2 (_ bv0 64))) (select a (bvadd p (_ bv0 64)))))
  (not (= (select w2 (bvadd q2 (_ bv1 64))) (select a (bvadd p (_ bv1 64)))))
  (not (= (select w2 (bvadd q2 (_ bv2 64))) (select a (bvadd p (_ bv2 64)))))
  (not (= (select w2 (bvadd q2 (_ bv3 64))) (select a (bvadd p (_ bv3 64)))))
  (not (= (select w2 (bvadd q2 (_ bv4 64))) (select a (bvadd p (_ bv4 64)))))
  (not (= (select w2 (bvadd q2 (_ bv5 64))) (select a (bvadd p (_ bv5 64)))))
  (not (= (select w2 (bvadd q2 (_ bv6 64))) (select a (bvadd p (_ bv6 64)))))
  (not (= (select w2 (bvadd q2 (_ bv7 64))) (select a (bvadd p (_ bv7 64)))))))
(check-sat)
