; include: thriftbin.smt2
; lemma listEndFixed: for a fixed-width element type t and 0 <= k < 2^31,
;   listEnd(a, t, k, q) == q + k * tyw(t)         (arithmetic modulo 2^64, as in the code)
; Proof by induction on k; this query is base case and induction step in one:
; the unfolding at (k, q) plus the induction hypothesis at k-1 (for the position
; the unfolding steps to) refute the negated claim.
(declare-const a (Array (_ BitVec 64) (_ BitVec 8)))
(declare-const t (_ BitVec 8))
(declare-const k (_ BitVec 64))
(declare-const q (_ BitVec 64))
(assert (not (= (tyw t) (_ bv0 64))))
(assert (bvsle (_ bv0 64) k))
(assert (bvsle k (_ bv2147483647 64)))
; one-level unfolding (definition of listEnd)
(assert (= (listEnd a t k q) (ite (bvsle k (_ bv0 64)) q (listEnd a t (bvsub k (_ bv1 64)) (skipEnd a t q)))))
; induction hypothesis for k-1 at every start position (instantiated where needed)
(assert (=> (bvsgt k (_ bv0 64))
  (= (listEnd a t (bvsub k (_ bv1 64)) (skipEnd a t q))
     (bvadd (skipEnd a t q) (bvmul (bvsub k (_ bv1 64)) (tyw t))))))
(assert (not (= (listEnd a t k q) (bvadd q (bvmul k (tyw t))))))
(check-sat)
