; include: thriftbin.smt2
; lemma mapEndFixed: fixed-width key and value types, 0 <= k < 2^31:
;   mapEnd(a, kt, vt, k, q) == q + k * (tyw(kt) + tyw(vt))
; Induction on k, base and step in one query (see listEnd_fixed.smt2).
(declare-const a (Array (_ BitVec 64) (_ BitVec 8)))
(declare-const kt (_ BitVec 8))
(declare-const vt (_ BitVec 8))
(declare-const k (_ BitVec 64))
(declare-const q (_ BitVec 64))
(assert (not (= (tyw kt) (_ bv0 64))))
(assert (not (= (tyw vt) (_ bv0 64))))
(assert (bvsle (_ bv0 64) k))
(assert (bvsle k (_ bv2147483647 64)))
(assert (= (mapEnd a kt vt k q) (ite (bvsle k (_ bv0 64)) q (mapEnd a kt vt (bvsub k (_ bv1 64)) (skipEnd a vt (skipEnd a kt q))))))
(assert (=> (bvsgt k (_ bv0 64))
  (= (mapEnd a kt vt (bvsub k (_ bv1 64)) (skipEnd a vt (skipEnd a kt q)))
     (bvadd (skipEnd a vt (skipEnd a kt q)) (bvmul (bvsub k (_ bv1 64)) (bvadd (tyw kt) (tyw vt)))))))
(assert (not (= (mapEnd a kt vt k q) (bvadd q (bvmul k (bvadd (tyw kt) (tyw vt)))))))
(check-sat)
