; include: thriftbin.smt2
; Legacy envelope header with a name of 1..2^24-1 bytes: first word is the
; (positive) name length, so the reader takes the legacy branch; type and
; seqid are read back from the positions the writer put them at.
(declare-const w (Array (_ BitVec 64) (_ BitVec 8)))
(declare-const q (_ BitVec 64))
(declare-const typ (_ BitVec 8))
(declare-const nlen (_ BitVec 64))
(declare-const seq (_ BitVec 32))
(assert (and (bvsle (_ bv1 64) nlen) (bvslt nlen (_ bv16777216 64))))
(assert (= ((_ sign_extend 32) (be32at w q)) nlen))
(assert (= (select w (bvadd q (_ bv4 64) nlen)) typ))
(assert (= (be32at w (bvadd q (_ bv5 64) nlen)) seq))
(define-fun v () (_ BitVec 32) (be32at w q))
(assert (not (and (bvsgt v #x00000000)
                  (= (select w q) #x00)          ; classified as legacy by its first byte
                  (= (select w (bvadd q (_ bv4 64) ((_ sign_extend 32) v))) typ)
                  (= (be32at w (bvadd q (_ bv5 64) ((_ sign_extend 32) v))) seq))))
(check-sat)
