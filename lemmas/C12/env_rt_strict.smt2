; include: thriftbin.smt2
; Versioned envelope header: the reader's spec (ReadEnvelopeBegin#post(strict))
; applied to the bytes the writer's spec (WriteEnvelopeBegin posts) produces
; returns the header that was written: type, name length, seqid; and the
; version word passes the reader's version check and is non-positive.
(declare-const w (Array (_ BitVec 64) (_ BitVec 8)))
(declare-const q (_ BitVec 64))
(declare-const typ (_ BitVec 8))
(declare-const nlen (_ BitVec 64))
(declare-const seq (_ BitVec 32))
(assert (bvsge typ #x00))
(assert (and (bvsle (_ bv0 64) nlen) (bvsle nlen (_ bv2147483647 64))))
; writer posts
(assert (= (bvand (be32at w q) #xffff0000) #x80010000))
(assert (= ((_ extract 7 0) (be32at w q)) typ))
(assert (= ((_ sign_extend 32) (be32at w (bvadd q (_ bv4 64)))) nlen))
(assert (= (be32at w (bvadd q (_ bv8 64) nlen)) seq))
; reader side: v = first word
(define-fun v () (_ BitVec 32) (be32at w q))
(assert (not (and (bvsle v #x00000000)                                   ; takes the strict branch
                  (= (bvand v #xffff0000) #x80010000)                    ; version accepted
                  (= ((_ extract 7 0) v) typ)                            ; type echoed
                  (= ((_ sign_extend 32) (be32at w (bvadd q (_ bv4 64)))) nlen)
                  (= (be32at w (bvadd q (_ bv8 64) ((_ sign_extend 32) (be32at w (bvadd q (_ bv4 64)))))) seq))))
(check-sat)
