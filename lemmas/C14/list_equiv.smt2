; C14, inductive step "list": pointwise equality of equal-length sequences under
; an element equivalence E is an equivalence, and it is sensitive to order
; (two different positions holding E-different elements, swapped, are not equal).
(declare-sort L 0) (declare-sort T 0)
(declare-fun len (L) Int)
(declare-fun at (L Int) T)
(declare-fun E (T T) Bool)
(assert (forall ((x T)) (E x x)))
(assert (forall ((x T) (y T)) (=> (E x y) (E y x))))
(assert (forall ((x T) (y T) (z T)) (=> (and (E x y) (E y z)) (E x z))))
(assert (forall ((l L)) (>= (len l) 0)))
(define-fun R ((x L) (y L)) Bool
  (and (= (len x) (len y)) (forall ((i Int)) (=> (and (<= 0 i) (< i (len x))) (E (at x i) (at y i))))))
(declare-const a L) (declare-const b L) (declare-const c L)
; order sensitivity: d is a with positions p, q swapped, and a[p], a[q] differ
(declare-const d L) (declare-const p Int) (declare-const q Int)
(assert (and (<= 0 p) (< p (len a)) (<= 0 q) (< q (len a)) (= (len d) (len a))))
(assert (= (at d p) (at a q)))
(assert (= (at d q) (at a p)))
(assert (not (E (at a p) (at a q))))
(assert (not (and (R a a)
                  (=> (R a b) (R b a))
                  (=> (and (R a b) (R b c)) (R a c))
                  (not (R a d)))))
(check-sat)
