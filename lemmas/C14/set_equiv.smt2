; C14, inductive step "set / map with hashable keys" (Go maps): same members,
; and for maps equal values under every key, is an equivalence; it does not
; mention any order, so it is insensitive to insertion / iteration order.
(declare-sort M 0) (declare-sort K 0) (declare-sort V 0)
(declare-fun has (M K) Bool)
(declare-fun val (M K) V)
(declare-fun E (V V) Bool)
(assert (forall ((x V)) (E x x)))
(assert (forall ((x V) (y V)) (=> (E x y) (E y x))))
(assert (forall ((x V) (y V) (z V)) (=> (and (E x y) (E y z)) (E x z))))
(define-fun R ((x M) (y M)) Bool
  (forall ((k K)) (and (= (has x k) (has y k)) (=> (has x k) (E (val x k) (val y k))))))
(declare-const a M) (declare-const b M) (declare-const c M)
(assert (not (and (R a a)
                  (=> (R a b) (R b a))
                  (=> (and (R a b) (R b c)) (R a c)))))
(check-sat)
