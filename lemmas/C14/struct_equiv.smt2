; C14, inductive step "struct": if the field relations P1 (a required field),
; P2 (the contents of an optional field) are equivalences, then the struct
; relation R of inst_eq.go (both nil, or both non-nil and field-wise equal, an
; optional field equal when both unset or both set and equal) is reflexive,
; symmetric and transitive. The goal is the negation of the conjunction of the
; three, so `unsat` proves all of them.
(declare-sort S 0) (declare-sort F1 0) (declare-sort F2 0)
(declare-fun isnil (S) Bool)
(declare-fun f1 (S) F1)
(declare-fun set2 (S) Bool)
(declare-fun f2 (S) F2)
(declare-fun P1 (F1 F1) Bool)
(declare-fun P2 (F2 F2) Bool)
(assert (forall ((x F1)) (P1 x x)))
(assert (forall ((x F1) (y F1)) (=> (P1 x y) (P1 y x))))
(assert (forall ((x F1) (y F1) (z F1)) (=> (and (P1 x y) (P1 y z)) (P1 x z))))
(assert (forall ((x F2)) (P2 x x)))
(assert (forall ((x F2) (y F2)) (=> (P2 x y) (P2 y x))))
(assert (forall ((x F2) (y F2) (z F2)) (=> (and (P2 x y) (P2 y z)) (P2 x z))))
(define-fun opt2 ((x S) (y S)) Bool
  (or (and (not (set2 x)) (not (set2 y))) (and (set2 x) (set2 y) (P2 (f2 x) (f2 y)))))
(define-fun R ((x S) (y S)) Bool
  (or (and (isnil x) (isnil y))
      (and (not (isnil x)) (not (isnil y)) (P1 (f1 x) (f1 y)) (opt2 x y))))
(declare-const a S) (declare-const b S) (declare-const c S)
(assert (not (and (R a a)
                  (=> (R a b) (R b a))
                  (=> (and (R a b) (R b c)) (R a c)))))
(check-sat)
