#!/bin/bash
# Builds gvc from vendored sources (offline).
set -e
cd "$(dirname "$0")/tool"
export GOFLAGS=-mod=vendor GOPROXY=off GOSUMDB=off GOTOOLCHAIN=local CGO_ENABLED=0
mkdir -p ../bin
go build -o ../bin/gvc ./cmd/gvc
echo "gvc built: $(cd .. && pwd)/bin/gvc"
