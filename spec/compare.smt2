; Spec functions for internal/compare (C20).
; thriftName(t): the Thrift name of a type spec (value of its ThriftName() getter).
(declare-fun thriftName (Iface) Str)
; diagSum(from, to, j): number of diagnostics the documented rules prescribe for the
; first j fields of struct `to` compared against struct `from`; defined by the
; recurrence instantiated in the contract of structSpecs (sumBase / sumStep).
(declare-fun diagSum (Int Int (_ BitVec 64)) (_ BitVec 64))
; fnSum(from, to): likewise for removed methods, over the visited method names.
; remSum(from, to, S): number of "removing method" diagnostics prescribed for the
; method names in set S (fold over the set; recurrence instantiated in the contract of Pass.service).
(declare-fun remSum (Int Int (Array Str Bool)) (_ BitVec 64))
