; Spec functions for package compile.
; apply_str(f, s): result of applying the (pure, deterministic) string
; transform held in a func-typed field to s.
(declare-fun apply_str (Int Str) Str)
; Scopes (C07): what a scope designates for a bare name (uninterpreted; the
; implementation Module.Lookup* is proved to be exactly its map lookup).
(declare-fun scopeHasType (Iface Str) Bool)
(declare-fun scopeType (Iface Str) Iface)
(declare-fun scopeHasConst (Iface Str) Bool)
(declare-fun scopeConst (Iface Str) Int)
(declare-fun scopeHasService (Iface Str) Bool)
(declare-fun scopeService (Iface Str) Int)
(declare-fun scopeHasInclude (Iface Str) Bool)
(declare-fun scopeInclude (Iface Str) Iface)
; strIndexRune(s, r): least index of rune r in s, -1 if absent (strings.IndexRune)
(declare-fun strIndexRune (Str (_ BitVec 32)) (_ BitVec 64))
(declare-fun fsAbs (Iface Str) Str)
