; Spec functions for package compile.
; apply_str(f, s): result of applying the (pure, deterministic) string
; transform held in a func-typed field to s.
(declare-fun apply_str (Int Str) Str)
