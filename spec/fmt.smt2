; Formatting as deterministic functions of the argument values (A-FMT): the
; text produced is a function of the format / separator and of the argument
; array's contents; nothing else about fmt or strings is modelled.
(declare-fun fmtSprintf (Str (Array (_ BitVec 64) Iface) (_ BitVec 64) (_ BitVec 64)) Str)
(declare-fun strJoin ((Array (_ BitVec 64) Str) (_ BitVec 64) (_ BitVec 64) Str) Str)
(declare-fun multierrAppend (Iface Iface) Iface)
