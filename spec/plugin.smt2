; Spec functions for the plugin protocol (C16) and output confinement (C17).
(declare-fun strContains (Str Str) Bool)
