; Thrift binary protocol, written from the protocol description (not from the code).
; Streams are byte arrays indexed by 64-bit positions.
(define-fun be16at ((a (Array (_ BitVec 64) (_ BitVec 8))) (p (_ BitVec 64))) (_ BitVec 16)
  (concat (select a p) (select a (bvadd p (_ bv1 64)))))
(define-fun be32at ((a (Array (_ BitVec 64) (_ BitVec 8))) (p (_ BitVec 64))) (_ BitVec 32)
  (concat (select a p) (select a (bvadd p (_ bv1 64))) (select a (bvadd p (_ bv2 64))) (select a (bvadd p (_ bv3 64)))))
(define-fun be64at ((a (Array (_ BitVec 64) (_ BitVec 8))) (p (_ BitVec 64))) (_ BitVec 64)
  (concat (select a p) (select a (bvadd p (_ bv1 64))) (select a (bvadd p (_ bv2 64))) (select a (bvadd p (_ bv3 64)))
          (select a (bvadd p (_ bv4 64))) (select a (bvadd p (_ bv5 64))) (select a (bvadd p (_ bv6 64))) (select a (bvadd p (_ bv7 64)))))
; wire type codes: bool 2, i8 3, double 4, i16 6, i32 8, i64 10, binary 11, struct 12, map 13, set 14, list 15
; tyw(t): encoded width of a fixed-width type, 0 when the width depends on the value
(define-fun tyw ((t (_ BitVec 8))) (_ BitVec 64)
  (ite (= t #x02) (_ bv1 64) (ite (= t #x03) (_ bv1 64) (ite (= t #x04) (_ bv8 64) (ite (= t #x06) (_ bv2 64)
  (ite (= t #x08) (_ bv4 64) (ite (= t #x0a) (_ bv8 64) (_ bv0 64))))))))
(define-fun knownty ((t (_ BitVec 8))) Bool
  (or (= t #x02) (= t #x03) (= t #x04) (= t #x06) (= t #x08) (= t #x0a) (= t #x0b) (= t #x0c) (= t #x0d) (= t #x0e) (= t #x0f)))
; End offsets by position arithmetic only. fieldsEnd / listEnd / mapEnd are
; characterised by their one-level unfoldings (instantiated by `use` clauses); skipEnd is a macro over them.
(declare-fun fieldsEnd ((Array (_ BitVec 64) (_ BitVec 8)) (_ BitVec 64)) (_ BitVec 64))
(declare-fun listEnd ((Array (_ BitVec 64) (_ BitVec 8)) (_ BitVec 8) (_ BitVec 64) (_ BitVec 64)) (_ BitVec 64))
(declare-fun mapEnd ((Array (_ BitVec 64) (_ BitVec 8)) (_ BitVec 8) (_ BitVec 8) (_ BitVec 64) (_ BitVec 64)) (_ BitVec 64))
; @opaque skipEnd
(define-fun skipEnd ((a (Array (_ BitVec 64) (_ BitVec 8))) (t (_ BitVec 8)) (p (_ BitVec 64))) (_ BitVec 64)
  (ite (not (= (tyw t) (_ bv0 64))) (bvadd p (tyw t))
  (ite (= t #x0b) (bvadd p (_ bv4 64) ((_ sign_extend 32) (be32at a p)))
  (ite (= t #x0c) (fieldsEnd a p)
  (ite (= t #x0d) (mapEnd a (select a p) (select a (bvadd p (_ bv1 64))) ((_ sign_extend 32) (be32at a (bvadd p (_ bv2 64)))) (bvadd p (_ bv6 64)))
       (listEnd a (select a p) ((_ sign_extend 32) (be32at a (bvadd p (_ bv1 64)))) (bvadd p (_ bv5 64))))))))
; The unfoldings are not asserted as quantified axioms (matching loops; they
; would also turn every failing query into `unknown`). Contracts name the
; instances they need (`use unfoldFields(a, p)`, ...), see the axiom
; declarations in protocol/binary/zz_verif_contracts.go.
; hasField(a, p, id, ty): the field list starting at p contains a field header with
; this id and wire type before its stop byte (one-level unfolding: unfoldHas).
(declare-fun hasField ((Array (_ BitVec 64) (_ BitVec 8)) (_ BitVec 64) (_ BitVec 16) (_ BitVec 8)) Bool)
