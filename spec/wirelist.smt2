; Abstract view of wire.ValueList / wire.MapItemList values (assumed interface
; contracts in /verif/external/wire.gvc): element type, key/value types, size.
(declare-fun vlType (Iface) (_ BitVec 8))
(declare-fun vlSize (Iface) (_ BitVec 64))
(declare-fun mlKeyType (Iface) (_ BitVec 8))
(declare-fun mlValueType (Iface) (_ BitVec 8))
(declare-fun mlSize (Iface) (_ BitVec 64))
