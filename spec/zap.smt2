; zap object encoders as append-only logs (A-FMT for logs): each Add* call appends
; (key, value view); the log is an uninterpreted term so that two runs produce
; the same log exactly when they make the same calls with the same views.
(declare-sort ZLog 0)
(declare-fun zapAddStr (ZLog Str Str) ZLog)
(declare-fun zapAddI64 (ZLog Str (_ BitVec 64)) ZLog)
(declare-fun zapAddI32 (ZLog Str (_ BitVec 32)) ZLog)
(declare-fun zapAddI16 (ZLog Str (_ BitVec 16)) ZLog)
(declare-fun zapAddI8 (ZLog Str (_ BitVec 8)) ZLog)
(declare-fun zapAddBool (ZLog Str Bool) ZLog)
(declare-fun zapAddF64 (ZLog Str (_ BitVec 64)) ZLog)
(declare-fun zapAddIface (ZLog Str Iface) ZLog)
(declare-fun zapErr (ZLog Str Iface) Iface)
