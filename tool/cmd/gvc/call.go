package main

// Calls: builtins, contract application (modular), inlining of marked leaves,
// havoc of inferred mod-sets, interface and closure calls.

import (
	"fmt"
	"go/types"
	"math/big"
	"strings"

	"golang.org/x/tools/go/ssa"
)

var bigZero = big.NewInt(0)

func bigInt(v int64) *big.Int { return big.NewInt(v) }

func (ex *Exec) doCall(st *State, fc *FnCtx, in ssa.Instruction, c *ssa.CallCommon, k func(st *State, res Val)) {
	var args []Val
	for _, a := range c.Args {
		args = append(args, ex.val(st, a))
	}
	var fnv Val
	if c.IsInvoke() {
		fnv = ex.val(st, c.Value)
	} else {
		fnv = ex.val(st, c.Value)
	}
	// errors returned by callees are remembered per path (clause `errsfromcallees`)
	sig := c.Signature()
	k2 := func(st *State, res Val) {
		if fc.top && fc.ct != nil && fc.ct.ErrsFromCallees {
			rs := sig.Results()
			record := func(v Val, t types.Type) {
				if tm, ok := v.(Term); ok && tm.So == sIface && isErrorType(t) {
					st.calleeErrs = append(st.calleeErrs, tm)
				}
			}
			if rs.Len() == 1 {
				record(res, rs.At(0).Type())
			} else if tup, ok := res.(Tuple); ok {
				for i := 0; i < rs.Len() && i < len(tup); i++ {
					record(tup[i], rs.At(i).Type())
				}
			}
		}
		k(st, res)
	}
	ex.callValue(st, fc, c, fnv, args, in, k2)
}

func isErrorType(t types.Type) bool {
	n, ok := t.(*types.Named)
	return ok && n.Obj().Pkg() == nil && n.Obj().Name() == "error"
}

func (ex *Exec) callName(fc *FnCtx, callee string, in ssa.Instruction) string {
	n := 0
	if in != nil {
		n = fc.instrOrd[in]
	}
	return fmt.Sprintf("%s@%d", shortFn(callee), n)
}

func (ex *Exec) callValue(st *State, fc *FnCtx, c *ssa.CallCommon, fnv Val, args []Val, in ssa.Instruction, k func(st *State, res Val)) {
	if c.IsInvoke() {
		recv := ex.asTerm(st, fnv, c.Value.Type())
		name := "(" + typeKey(c.Value.Type()) + ")." + c.Method.Name()
		sig := c.Signature()
		if ct, ok := ex.cs.ByFunc[name]; ok {
			if ct.Dispatch != "" {
				// the receiver's dynamic type is asserted, then the concrete method is called
				env := &SpecEnv{ex: ex, st: st, heap: st.heap, names: map[string]tv{}, pkg: ex.prog.pkgByPath(ct.Pkg), alloc: st.alloc}
				dt := env.resolveType(parseSpec(ct.Dispatch))
				if dt == nil {
					unsupported("dispatch type %s of %s does not resolve", ct.Dispatch, name)
				}
				f := ex.prog.prog.LookupMethod(dt, c.Method.Pkg(), c.Method.Name())
				if f == nil {
					unsupported("dispatch: %s has no method %s", ct.Dispatch, c.Method.Name())
				}
				is := eq(ifaceTag(recv), intLit(int64(ex.u.tagOf(dt))))
				var props []string
				if ex.ct != nil {
					props = ex.ct.Props
				}
				ex.goal(st, "pre", fmt.Sprintf("%s#dispatch(%s)", fc.prefix, ex.callName(fc, ct.Short, in)), is, props, ex.posOfOpt(in), "dynamic type of the receiver is "+ct.Dispatch, nil)
				st.assume(is)
				ex.usedContracts[ct.Func] = true
				var rv Val = ex.u.unbox(ifacePv(recv), ex.u.sortOf(dt))
				ex.callFunction(st, fc, f, append([]Val{rv}, args...), nil, in, k)
				return
			}
			ex.applyContract(st, fc, ct, nil, sig, c.Value.Type(), append([]Val{recv}, args...), in, k)
			return
		}
		// known dynamic type? (tag literal) -> static dispatch
		if f := ex.staticDispatch(recv, c); f != nil {
			rt := f.Signature.Recv().Type()
			var rv Val = ex.u.unbox(ifacePv(recv), ex.u.sortOf(rt))
			ex.callFunction(st, fc, f, append([]Val{rv}, args...), nil, in, k)
			return
		}
		// error.Error(): pure, opaque string
		if isErrorIface(c.Value.Type()) && c.Method.Name() == "Error" {
			k(st, ex.uninterp(st, "error_string", sStr, recv))
			return
		}
		ms := newModSet()
		ex.prog.callEffect(ex.cs, ms, c, fc.fn)
		ex.havocCall(st, ms, name)
		k(st, ex.freshResults(st, sig.Results(), "ir"))
		return
	}
	switch callee := fnv.(type) {
	case *ssa.Builtin:
		ex.builtin(st, fc, callee, c, args, in, k)
	case *Closure:
		ex.callFunction(st, fc, callee.Fn, args, callee, in, k)
	case Term:
		// unknown function value: field contract?
		if cl, ok := ex.closures[callee.S]; ok {
			ex.callFunction(st, fc, cl.Fn, args, cl, in, k)
			return
		}
		if fct := ex.fieldContractFor(c.Value); fct != nil {
			ex.pendingFn = &callee
			if ld, ok := c.Value.(*ssa.UnOp); ok {
				if fa, ok := ld.X.(*ssa.FieldAddr); ok {
					if pv, ok := ex.val(st, fa.X).(*Ptr); ok && pv.Cell != nil {
						ex.pendingSelf = &tv{P: pv, Ty: fa.X.Type()}
					} else {
						sv := ex.asTerm(st, ex.val(st, fa.X), fa.X.Type())
						ex.pendingSelf = &tv{T: sv, Ty: fa.X.Type()}
					}
				}
			}
			ex.applyContract(st, fc, fct, nil, c.Signature(), nil, args, in, k)
			return
		}
		if pct := ex.paramContractFor(fc, c.Value); pct != nil {
			// a parameter contract may mention the locals of the function that makes the call
			ex.pendingLocals = ex.specEnvAt(st, fc).locals
			ex.applyContract(st, fc, pct, nil, c.Signature(), nil, args, in, k)
			return
		}
		ex.note("dynamic call through unknown function value in %s: heap havoc", fc.fn.Name())
		ex.havocHeap(st)
		ex.bumpAlloc(st)
		k(st, ex.freshResults(st, c.Signature().Results(), "dr"))
	default:
		unsupported("call of %T", fnv)
	}
}

func isErrorIface(t types.Type) bool {
	n, ok := t.(*types.Named)
	return ok && n.Obj().Pkg() == nil && n.Obj().Name() == "error"
}

func (ex *Exec) note(format string, args ...interface{}) {
	s := fmt.Sprintf(format, args...)
	for _, n := range ex.notes {
		if n == s {
			return
		}
	}
	ex.notes = append(ex.notes, s)
}

// fieldContractFor: a call through a func-typed struct field uses its field contract.
func (ex *Exec) fieldContractFor(v ssa.Value) *Contract {
	ld, ok := v.(*ssa.UnOp)
	if !ok {
		return nil
	}
	fa, ok := ld.X.(*ssa.FieldAddr)
	if !ok {
		return nil
	}
	st := fa.X.Type().Underlying().(*types.Pointer).Elem()
	n, ok := st.(*types.Named)
	if !ok {
		return nil
	}
	fname := st.Underlying().(*types.Struct).Field(fa.Field).Name()
	key := n.Obj().Pkg().Path() + "." + n.Obj().Name() + "." + fname
	return ex.cs.Field[key]
}

// paramContractFor: a call through a func-typed parameter uses the contract
// declared with `paramcontract <func>.<param>` (an assumption on callers'
// callbacks plus obligations at the call site).
func (ex *Exec) paramContractFor(fc *FnCtx, v ssa.Value) *Contract {
	name := ""
	switch x := v.(type) {
	case *ssa.Parameter:
		name = x.Name()
	case *ssa.UnOp:
		if a, ok := x.X.(*ssa.Alloc); ok {
			for _, p := range fc.fn.Params {
				if p.Name() == a.Comment {
					name = a.Comment
				}
			}
		}
	}
	if name == "" {
		return nil
	}
	return ex.cs.Field[fc.fn.String()+"."+name]
}

// staticDispatch resolves an invoke whose receiver's dynamic type is syntactically known.
func (ex *Exec) staticDispatch(recv Term, c *ssa.CallCommon) *ssa.Function {
	var tag int
	if _, err := fmt.Sscanf(recv.S, "(mk-iface %d ", &tag); err != nil || tag == 0 {
		return nil
	}
	if tag-1 >= len(ex.u.tagTypes) {
		return nil
	}
	t := ex.u.tagTypes[tag-1]
	return ex.prog.prog.LookupMethod(t, c.Method.Pkg(), c.Method.Name())
}

func (ex *Exec) freshResults(st *State, res *types.Tuple, prefix string) Val {
	if res.Len() == 0 {
		return nil
	}
	var out Tuple
	for i := 0; i < res.Len(); i++ {
		t := res.At(i).Type()
		v := ex.fresh(prefix, ex.u.sortOf(t))
		ex.assumeWellTyped(st, v, t)
		out = append(out, v)
	}
	if len(out) == 1 {
		return out[0]
	}
	return out
}

func (ex *Exec) havocCall(st *State, ms *ModSet, callee string) {
	if ms.all {
		ex.note("call to %s havocs the whole heap (%s)", shortFn(callee), ms.why)
	}
	old := st.heap.clone()
	ex.applyModSet(st, ms, nil)
	// maps local to this function cannot be reached by the callee
	for _, lm := range st.localMaps {
		for _, c := range []struct {
			name string
			arr  func(h *HeapView) Term
		}{
			{compMapPT(lm.k, lm.v), func(h *HeapView) Term { return ex.mapPComp(h, lm.k, lm.v) }},
			{compMapVT(lm.k, lm.v), func(h *HeapView) Term { return ex.mapVComp(h, lm.k, lm.v) }},
			{compMapL(), func(h *HeapView) Term { return ex.mapLComp(h) }},
		} {
			if !ms.all {
				if _, hit := ms.comps[c.name]; !hit {
					continue
				}
			}
			nw := c.arr(st.heap)
			ow := c.arr(old)
			if nw.S == ow.S {
				continue
			}
			st.heap.m[c.name] = ex.define(st, "hl", store(nw, lm.ref, sel(ow, lm.ref)))
		}
	}
	ex.bumpAlloc(st)
}

func (ex *Exec) callFunction(st *State, fc *FnCtx, fn *ssa.Function, args []Val, cl *Closure, in ssa.Instruction, k func(st *State, res Val)) {
	name := fn.String()
	if r, ok := ex.intrinsic(st, fn, args); ok {
		k(st, r)
		return
	}
	ct := ex.cs.ByFunc[name]
	if ct == nil && fn.Origin() != nil {
		ct = ex.cs.ByFunc[fn.Origin().String()]
	}
	synthetic := fn.Synthetic != "" && (strings.HasPrefix(fn.Synthetic, "bound method") || strings.HasPrefix(fn.Synthetic, "wrapper") || strings.HasPrefix(fn.Synthetic, "thunk"))
	if synthetic || (ct != nil && ct.Inline) || (cl != nil && len(cl.Bindings) > 0 && ct == nil && fn.Parent() != nil && ex.inlineClosures) {
		if st.inlineDepth > 12 {
			unsupported("inline depth exceeded at %s", name)
		}
		ex.inlineCall(st, fc, fn, ct, args, cl, in, k)
		return
	}
	if ct != nil {
		ex.applyContract(st, fc, ct, fn, fn.Signature, nil, args, in, k)
		return
	}
	ms := ex.prog.modSetOf(ex.cs, fn)
	if cl != nil && len(cl.Bindings) > 0 {
		// captured variables may be written by the closure: they are heap cells (escaping allocs)
	}
	ex.havocCall(st, ms, name)
	ex.uncontracted[shortFn(name)] = true
	k(st, ex.freshResults(st, fn.Signature.Results(), "cr"))
}

// intrinsic: functions with built-in exact semantics.
func (ex *Exec) intrinsic(st *State, fn *ssa.Function, args []Val) (Val, bool) {
	switch fn.String() {
	case "math.Float64bits", "math.Float64frombits", "math.Float32bits", "math.Float32frombits":
		return args[0], true
	}
	return nil, false
}

func (ex *Exec) inlineCall(st *State, fc *FnCtx, fn *ssa.Function, ct *Contract, args []Val, cl *Closure, in ssa.Instruction, k func(st *State, res Val)) {
	if len(fn.Blocks) == 0 {
		unsupported("cannot inline %s: no body", fn)
	}
	ex.inlined[shortFn(fn.String())] = true
	sub := ex.newFnCtx(fn, ct, false, fc.prefix+"/"+fn.Name())
	sub.names = map[string]tv{}
	for i, p := range fn.Params {
		st.env[p] = args[i]
		if t, ok := args[i].(Term); ok {
			sub.names[p.Name()] = tv{T: t, Ty: p.Type()}
		}
	}
	if cl != nil {
		for i, fv := range fn.FreeVars {
			if i < len(cl.Bindings) {
				st.env[fv] = cl.Bindings[i]
			}
		}
	}
	savedDefers := st.defers
	st.defers = nil
	st.inlineDepth++
	sub.onReturn = func(st2 *State, results []Val) {
		st2.inlineDepth--
		st2.defers = savedDefers
		switch len(results) {
		case 0:
			k(st2, nil)
		case 1:
			k(st2, results[0])
		default:
			k(st2, Tuple(results))
		}
	}
	ex.runBlock(st, sub, fn.Blocks[0], nil)
}

// paramNames binds the callee's parameter names to argument values.
func (ex *Exec) bindParams(st *State, fn *ssa.Function, sig *types.Signature, recvT types.Type, args []Val) map[string]tv {
	names := map[string]tv{}
	bind := func(name string, t types.Type, v Val, i int) {
		var x tv
		switch y := v.(type) {
		case Term:
			x = tv{T: y, Ty: t}
		case *Ptr:
			if y.Cell != nil {
				x = tv{P: y, Ty: t}
			} else {
				x = tv{T: ex.reify(y), Ty: t}
			}
		case *Closure:
			x = tv{T: ex.closureRef(st, y), Ty: t}
		default:
			return
		}
		if name != "" && name != "_" {
			names[name] = x
		}
		names[fmt.Sprintf("arg%d", i)] = x
	}
	if fn != nil {
		for i, p := range fn.Params {
			if i < len(args) {
				bind(p.Name(), p.Type(), args[i], i)
				if i == 0 && sig.Recv() != nil {
					names["recv"] = names[p.Name()]
				}
			}
		}
		return names
	}
	i := 0
	if recvT != nil {
		bind("recv", recvT, args[0], 0)
		names["this"] = names["recv"]
		i = 1
	}
	for j := 0; j < sig.Params().Len(); j++ {
		p := sig.Params().At(j)
		if i+j < len(args) {
			bind(p.Name(), p.Type(), args[i+j], j)
		}
	}
	return names
}

func resultNames(sig *types.Signature, res []tv, names map[string]tv) {
	n := sig.Results().Len()
	for i := 0; i < n && i < len(res); i++ {
		r := sig.Results().At(i)
		if r.Name() != "" && r.Name() != "_" {
			names[r.Name()] = res[i]
		}
		names[fmt.Sprintf("result%d", i)] = res[i]
		if i == 0 {
			names["result"] = res[i]
		}
		if i == n-1 && isErrorIface(r.Type()) {
			names["err"] = res[i]
		}
		if i == 1 && r.Type().Underlying() == types.Typ[types.Bool] {
			if _, ok := names["ok"]; !ok {
				names["ok"] = res[i]
			}
		}
	}
}

// modifiedRefs evaluates the modifies clauses of a contract in env, returning
// for each component the references whose contents may change.
func (ex *Exec) modifiedRefs(env *SpecEnv, ct *Contract) (refs map[string][]Term, ms *ModSet) {
	refs = map[string][]Term{}
	ms = newModSet()
	for _, cl := range ct.Modifies {
		for _, part := range splitTop(cl.Text) {
			part = strings.TrimSpace(part)
			if part == "nothing" || part == "" {
				continue
			}
			if part == "all" {
				ms.setAll("modifies all")
				continue
			}
			func() {
				defer func() {
					if r := recover(); r != nil {
						if se, ok := r.(specErr); ok {
							ex.specError(cl, fmt.Errorf("%s", se.msg))
							ms.setAll("bad modifies")
							return
						}
						panic(r)
					}
				}()
				ex.modLocationAST(env, parseSpec(part), refs, ms)
			}()
		}
	}
	return
}

// applyContract: assert requires, havoc the effect with frame axioms, assume ensures.
func (ex *Exec) applyContract(st *State, fc *FnCtx, ct *Contract, fn *ssa.Function, sig *types.Signature, recvT types.Type, args []Val, in ssa.Instruction, k func(st *State, res Val)) {
	ex.usedContracts[ct.Func] = true
	names := ex.bindParams(st, fn, sig, recvT, args)
	if ex.pendingFn != nil {
		names["fn"] = tv{T: *ex.pendingFn}
		ex.pendingFn = nil
	}
	if ex.pendingSelf != nil {
		names["self"] = *ex.pendingSelf
		ex.pendingSelf = nil
	}
	var pkg *types.Package
	if fn != nil {
		pkg = fnPkg(fn)
	} else if ct.Pkg != "" {
		pkg = ex.prog.pkgByPath(ct.Pkg)
	}
	env := &SpecEnv{ex: ex, st: st, heap: st.heap, names: names, pkg: pkg, alloc: st.alloc}
	callerLocals := ex.pendingLocals
	ex.pendingLocals = nil
	env.locals = callerLocals
	callProps := []string(nil)
	if ex.ct != nil {
		callProps = ex.ct.Props
	}
	// ghost lets of the callee: entry-state abbreviations
	for _, cl := range ct.Lets {
		parts := strings.SplitN(cl.Text, "=", 2)
		if len(parts) != 2 {
			continue
		}
		v, err := env.evalTerm(strings.TrimSpace(parts[1]))
		if err != nil {
			ex.specError(cl, err)
			continue
		}
		v = env.needTerm(v)
		names[strings.TrimSpace(parts[0])] = tv{T: ex.define(st, "let", v.T), Ty: v.Ty}
	}
	for i, cl := range ct.Requires {
		t, err := env.evalBool(cl.Text)
		if err != nil {
			ex.specError(cl, err)
			continue
		}
		ex.goal(st, "pre", fmt.Sprintf("%s#pre%d(%s)", fc.prefix, i+1, ex.callName(fc, ct.Short, in)), t, callProps, ex.posOfOpt(in), "precondition of "+ct.Short+": "+cl.Text, cl)
		st.assume(t)
	}
	// termination of recursive calls
	if in != nil && ex.ct != nil && len(ex.ct.Decr) > 0 && len(ct.Decr) > 0 && ex.recursiveWith(ct) {
		now := ex.evalMeasure(env, ct.Decr)
		if st.entry != nil && st.entry.measure != nil {
			ex.goal(st, "dec", fmt.Sprintf("%s#dec(%s)", fc.prefix, ex.callName(fc, ct.Short, in)), lexLess(now, st.entry.measure), callProps, ex.posOfOpt(in), "termination measure decreases at recursive call to "+ct.Short, ct.Decr[0])
		}
	}
	// allocations the callee performs up front (C13)
	for _, cl := range ct.Allocates {
		v, err := env.evalTerm(cl.Text)
		if err != nil {
			ex.specError(cl, err)
			continue
		}
		v = env.needTerm(v)
		ex.allocCheck(st, fc, in, resize(v.T, 64, v.Ty == nil || isSigned(v.Ty)), types.Typ[types.Uint8])
	}
	pre := st.heap.clone()
	preAlloc := st.alloc
	savedBound := st.heapBound
	// effect
	var ms *ModSet
	if ct.Pure {
		ms = newModSet()
	} else if fn != nil && inModule(fn) && len(fn.Blocks) > 0 && !ct.Trusted {
		ms = ex.prog.modSetOf(ex.cs, fn)
	} else {
		ms = newModSet()
		if len(ct.Modifies) == 0 {
			ms.setAll("no modifies clause on external " + ct.Func)
		} else {
			ex.prog.modifiesComps(ex.cs, ct, ms, sig)
		}
	}
	if len(ct.Modifies) > 0 && !ms.all {
		refs, extra := ex.modifiedRefs(env, ct)
		if extra.all {
			ex.havocCall(st, extra, ct.Func)
		} else {
			ex.applyFramed(st, ms, refs, preAlloc)
			ex.bumpAlloc(st)
		}
	} else {
		ex.havocCall(st, ms, ct.Func)
		if ms.all {
			// protected ghost components survive a whole-heap havoc unless the
			// contract names them
			for _, cl := range ct.Modifies {
				for _, part := range splitTop(cl.Text) {
					part = strings.TrimSpace(part)
					if i := strings.Index(part, "("); i > 0 && ex.cs.Protected[part[:i]] {
						g := part[:i]
						c := compGhost(g)
						cur := ex.comp(st.heap, c, ex.cs.Ghost[g])
						st.heap.m[c] = ex.fresh("hg", cur.So)
					}
				}
			}
		}
	}
	if ct.Pure {
		// a pure callee stores nothing into the heap: references loaded later
		// are still bounded by the previous heap bound
		st.heapBound = savedBound
	}
	// results
	var resv Val
	var rtv []tv
	if sig.Results().Len() > 0 {
		resv = ex.freshResults(st, sig.Results(), "res")
		if tup, ok := resv.(Tuple); ok {
			for i, r := range tup {
				rtv = append(rtv, tv{T: r.(Term), Ty: sig.Results().At(i).Type()})
			}
		} else {
			rtv = append(rtv, tv{T: resv.(Term), Ty: sig.Results().At(0).Type()})
		}
	}
	post := &SpecEnv{ex: ex, st: st, heap: st.heap, old: pre, names: map[string]tv{}, oldNames: names, pkg: pkg, alloc: st.alloc, oldAlloc: preAlloc}
	post.locals = callerLocals
	post.oldLocals = callerLocals
	for n, v := range names {
		post.names[n] = v
	}
	resultNames(sig, rtv, post.names)
	for _, cl := range ct.Ensures {
		t, err := post.evalBool(cl.Text)
		if err != nil {
			ex.specError(cl, err)
			continue
		}
		st.assume(t)
	}
	k(st, resv)
}

func (ex *Exec) posOfOpt(in ssa.Instruction) string {
	if in == nil {
		return ""
	}
	return ex.posOf(in)
}

// applyFramed havocs components with a frame axiom: locations allocated before
// the call and not listed in refs keep their contents.
func (ex *Exec) applyFramed(st *State, ms *ModSet, refs map[string][]Term, preAlloc Term) {
	for _, c := range ms.sorted() {
		ci := ms.comps[c]
		vs := ex.compValSort(ci)
		old := ex.comp(st.heap, c, vs)
		nv := ex.fresh("hf", old.So)
		ex.counter++
		r := fmt.Sprintf("fr_%d", ex.counter)
		guard := []Term{mk(sBool, "<=", Term{r, sInt}, preAlloc)}
		for _, lr := range refs[c] {
			guard = append(guard, not(eq(Term{r, sInt}, lr)))
		}
		st.log = append(st.log, fmt.Sprintf("(assert (forall ((%s Int)) (! (=> %s (= (select %s %s) (select %s %s))) :pattern ((select %s %s)))))",
			r, and(guard...).S, nv.S, r, old.S, r, nv.S, r))
		st.heap.m[c] = nv
		st.pendingBound = append(st.pendingBound, c)
	}
}

func (ex *Exec) recursiveWith(ct *Contract) bool {
	// callee is in the same strongly connected component as the verified function
	f := ex.prog.funcs[ct.Func]
	if f == nil {
		return ct.Func == ex.ct.Func
	}
	return ex.prog.reaches(f, ex.fn)
}

func (ex *Exec) evalMeasure(env *SpecEnv, decs []*Clause) []Term {
	var out []Term
	for _, cl := range decs {
		for _, part := range splitTop(cl.Text) {
			v, err := env.evalTerm(part)
			if err != nil {
				ex.specError(cl, err)
				continue
			}
			v = env.needTerm(v)
			out = append(out, toMeasure(v))
		}
	}
	return out
}

// ---------------------------------------------------------------------------
// builtins

func (ex *Exec) builtin(st *State, fc *FnCtx, b *ssa.Builtin, c *ssa.CallCommon, args []Val, in ssa.Instruction, k func(st *State, res Val)) {
	u := ex.u
	switch b.Name() {
	case "len", "cap":
		a := ex.asTerm(st, args[0], c.Args[0].Type())
		switch tt := c.Args[0].Type().Underlying().(type) {
		case *types.Slice:
			if b.Name() == "len" {
				k(st, sliceLen(a))
			} else {
				k(st, sliceCap(a))
			}
		case *types.Basic:
			k(st, mk(sBV64, "str.len_", a))
		case *types.Map:
			k(st, ite(eq(a, tNull), bv64(0), sel(ex.mapLComp(st.heap), a)))
		case *types.Array:
			k(st, bv64(tt.Len()))
		case *types.Pointer:
			k(st, bv64(tt.Elem().Underlying().(*types.Array).Len()))
		default:
			unsupported("len of %s", c.Args[0].Type())
		}
	case "append":
		ex.appendOp(st, fc, c, args, in, k)
	case "copy":
		dst := ex.asTerm(st, args[0], c.Args[0].Type())
		src := ex.asTerm(st, args[1], c.Args[1].Type())
		et := c.Args[0].Type().Underlying().(*types.Slice).Elem()
		var n, srcArr, srcOff Term
		if src.So == sStr {
			n = bvMin(sliceLen(dst), mk(sBV64, "str.len_", src))
			srcArr = ex.uninterp(st, "str_bytes", arraySort(sBV64, sBV8), src)
			ex.strBytesAxiom(st, src, srcArr)
			srcOff = bv64(0)
		} else {
			n = bvMin(sliceLen(dst), sliceLen(src))
			srcArr = sel(ex.arrComp(st.heap, et), sliceBase(src))
			srcOff = sliceOff(src)
		}
		n = ex.define(st, "cn", n)
		ac := ex.arrComp(st.heap, et)
		oldArr := ex.define(st, "oa", sel(ac, sliceBase(dst)))
		srcArr = ex.define(st, "sa", srcArr)
		newArr := ex.fresh("na", oldArr.So)
		ex.copyAxiom(st, newArr, oldArr, sliceOff(dst), srcArr, srcOff, n)
		ex.setComp(st, compArrT(et), store(ac, sliceBase(dst), newArr))
		k(st, n)
	case "delete":
		mt := c.Args[0].Type().Underlying().(*types.Map)
		m := ex.asTerm(st, args[0], c.Args[0].Type())
		key := ex.asTerm(st, args[1], c.Args[1].Type())
		pc := ex.mapPComp(st.heap, mt.Key(), mt.Elem())
		lc := ex.mapLComp(st.heap)
		was := sel(sel(pc, m), key)
		ex.setComp(st, compMapL(), store(lc, m, ite(was, mk(sBV64, "bvsub", sel(lc, m), bv64(1)), sel(lc, m))))
		ex.setComp(st, compMapPT(mt.Key(), mt.Elem()), store(pc, m, store(sel(pc, m), key, tFalse)))
		k(st, nil)
	case "ssa:wrapnilchk":
		k(st, args[0])
	case "ssa:deferstack":
		k(st, tNull)
	case "print", "println":
		k(st, nil)
	case "min", "max":
		a := ex.asTerm(st, args[0], c.Args[0].Type())
		bb := ex.asTerm(st, args[1], c.Args[1].Type())
		op := "bvsle"
		if !isSigned(c.Args[0].Type()) {
			op = "bvule"
		}
		if b.Name() == "min" {
			k(st, ite(mk(sBool, op, a, bb), a, bb))
		} else {
			k(st, ite(mk(sBool, op, a, bb), bb, a))
		}
	case "panic":
		// handled by the Panic instruction
		k(st, nil)
	default:
		_ = u
		unsupported("builtin %s", b.Name())
	}
}

func bvMin(a, b Term) Term { return ite(mk(sBool, "bvsle", a, b), a, b) }

// copyAxiom: newArr = oldArr with [dstOff, dstOff+n) replaced by src[srcOff, srcOff+n).
func (ex *Exec) copyAxiom(st *State, newArr, oldArr, dstOff, srcArr, srcOff, n Term) {
	ex.counter++
	j := fmt.Sprintf("cq_%d", ex.counter)
	jt := Term{j, sBV64}
	rel := mk(sBV64, "bvsub", jt, dstOff)
	in := and(mk(sBool, "bvule", dstOff, jt), mk(sBool, "bvult", rel, n))
	body := eq(sel(newArr, jt), ite(in, sel(srcArr, mk(sBV64, "bvadd", srcOff, rel)), sel(oldArr, jt)))
	st.log = append(st.log, fmt.Sprintf("(assert (forall ((%s (_ BitVec 64))) (! %s :pattern ((select %s %s)))))", j, body.S, newArr.S, j))
}

func (ex *Exec) appendOp(st *State, fc *FnCtx, c *ssa.CallCommon, args []Val, in ssa.Instruction, k func(st *State, res Val)) {
	s := ex.asTerm(st, args[0], c.Args[0].Type())
	st0 := c.Args[0].Type().Underlying().(*types.Slice)
	et := st0.Elem()
	var tl, tarr, toff Term
	t := ex.asTerm(st, args[1], c.Args[1].Type())
	if t.So == sStr {
		tl = mk(sBV64, "str.len_", t)
		tarr = ex.uninterp(st, "str_bytes", arraySort(sBV64, sBV8), t)
		ex.strBytesAxiom(st, t, tarr)
		toff = bv64(0)
	} else {
		tl = sliceLen(t)
		tarr = sel(ex.arrComp(st.heap, et), sliceBase(t))
		toff = sliceOff(t)
	}
	tl = ex.define(st, "al", tl)
	tarr = ex.define(st, "ta", tarr)
	newLen := ex.define(st, "nl", mk(sBV64, "bvadd", sliceLen(s), tl))
	fits := mk(sBool, "bvsle", newLen, sliceCap(s))
	// the total length cannot overflow: both lengths are < 2^62
	ex.allocCheck(st, fc, in, newLen, et)

	// in-place branch
	st1 := st.clone()
	st1.assume(fits)
	st1.pathTag = append(st1.pathTag, "append-inplace")
	{
		ac := ex.arrComp(st1.heap, et)
		oldArr := ex.define(st1, "oa", sel(ac, sliceBase(s)))
		newArr := ex.writeRange(st1, oldArr, mk(sBV64, "bvadd", sliceOff(s), sliceLen(s)), tarr, toff, tl)
		ex.setComp(st1, compArrT(et), store(ac, sliceBase(s), newArr))
		st1.assume(not(eq(sliceBase(s), tNull))) // cap > 0 implies a backing array
		k(st1, ex.define(st1, "ap", mkSlice(sliceBase(s), sliceOff(s), newLen, sliceCap(s))))
	}
	// growing branch
	st.assume(not(fits))
	st.pathTag = append(st.pathTag, "append-grow")
	ex.paths++
	{
		ac := ex.arrComp(st.heap, et)
		oldArr := ex.define(st, "oa", sel(ac, sliceBase(s)))
		r := ex.newRef(st)
		ncap := ex.fresh("ncap", sBV64)
		st.assume(mk(sBool, "bvsle", newLen, ncap))
		st.assume(mk(sBool, "bvsle", ncap, bv64(1<<62)))
		// The new backing array holds a copy of the old one (same offset), then t.
		// Slots beyond the new length are modelled as the old array's slack
		// contents rather than zeros (assumption A-APPEND-SLACK: no function
		// under contract reads the capacity region after a growing append).
		newArr := ex.writeRange(st, oldArr, mk(sBV64, "bvadd", sliceOff(s), sliceLen(s)), tarr, toff, tl)
		ex.setComp(st, compArrT(et), store(ac, r, newArr))
		k(st, ex.define(st, "ap", mkSlice(r, sliceOff(s), newLen, ncap)))
	}
}

// copyAxiomFresh: fresh[j] = old[off+j] for j < n, zero beyond.
func (ex *Exec) copyAxiomFresh(st *State, fresh, oldArr, off, n, zero Term) {
	ex.counter++
	j := fmt.Sprintf("gq_%d", ex.counter)
	jt := Term{j, sBV64}
	body := eq(sel(fresh, jt), ite(mk(sBool, "bvult", jt, n), sel(oldArr, mk(sBV64, "bvadd", off, jt)), zero))
	st.log = append(st.log, fmt.Sprintf("(assert (forall ((%s (_ BitVec 64))) (! %s :pattern ((select %s %s)))))", j, body.S, fresh.S, j))
}

// writeRange returns arr with [at, at+n) replaced by src[srcOff, srcOff+n).
// Constant small n is unrolled into stores; otherwise a quantified definition.
func (ex *Exec) writeRange(st *State, arr, at, src, srcOff, n Term) Term {
	var cn int64 = -1
	if _, err := fmt.Sscanf(n.S, "(_ bv%d 64)", &cn); err == nil && cn >= 0 && cn <= 8 {
		out := arr
		for i := int64(0); i < cn; i++ {
			out = store(out, mk(sBV64, "bvadd", at, bv64(i)), sel(src, mk(sBV64, "bvadd", srcOff, bv64(i))))
		}
		return ex.define(st, "wr", out)
	}
	nv := ex.fresh("wa", arr.So)
	ex.copyAxiom(st, nv, arr, at, src, srcOff, n)
	return nv
}

// allocCheck is the C13 hook: an allocation of n elements.
func (ex *Exec) allocCheck(st *State, fc *FnCtx, in ssa.Instruction, n Term, elem types.Type) {
	if ex.allocHook != nil {
		ex.allocHook(st, fc, in, n, elem)
	}
}
