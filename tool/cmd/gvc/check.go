package main

// `gvc check`: decide one property. Loads the packages the property needs
// from /repo's working tree, verifies every contract serving the property,
// handles known findings, writes evidence and replay files.

import (
	"encoding/json"
	"flag"
	"fmt"
	"os"
	"path/filepath"
	"sort"
	"strconv"
	"strings"
	"sync"
	"time"
)

type PropConfig struct {
	Pkgs      []string `json:"pkgs"`
	Title     string   `json:"title"`
	Trusted   []string `json:"trusted_base"`
	Assume    []string `json:"assumptions"`
	Lemmas    []string `json:"lemmas"`
	Inst      bool     `json:"inst"`
	Bounded   []string `json:"bounded_standins"`
	MinObl    int      `json:"min_obligations"`
	LemmaDirs []string `json:"lemma_dirs"`
}

type Finding struct {
	Kind       string // finding | fixed
	Property   string
	Obligation string
	Region     string
	Input      string
	Text       string
	Line       string
}

func loadFindings(path string) []Finding {
	data, err := os.ReadFile(path)
	if err != nil {
		return nil
	}
	var out []Finding
	for _, l := range strings.Split(string(data), "\n") {
		l = strings.TrimSpace(l)
		if l == "" || strings.HasPrefix(l, "#") {
			continue
		}
		f := Finding{Line: l}
		switch {
		case strings.HasPrefix(l, "finding:"):
			f.Kind = "finding"
			l = strings.TrimSpace(strings.TrimPrefix(l, "finding:"))
		case strings.HasPrefix(l, "fixed:"):
			f.Kind = "fixed"
			l = strings.TrimSpace(strings.TrimPrefix(l, "fixed:"))
		default:
			continue
		}
		// key=value pairs; region={...} input={...} may contain spaces inside braces
		rest := l
		for rest != "" {
			rest = strings.TrimSpace(rest)
			i := strings.Index(rest, "=")
			sp := strings.Index(rest, " ")
			if i < 0 || (sp >= 0 && sp < i) {
				f.Text = rest
				break
			}
			key := rest[:i]
			val := ""
			after := rest[i+1:]
			if strings.HasPrefix(after, "{") {
				j := strings.Index(after, "}")
				val = after[1:j]
				rest = after[j+1:]
			} else {
				j := strings.Index(after, " ")
				if j < 0 {
					val, rest = after, ""
				} else {
					val, rest = after[:j], after[j+1:]
				}
			}
			switch key {
			case "property":
				f.Property = val
			case "obligation":
				f.Obligation = val
			case "region":
				f.Region = val
			case "input":
				f.Input = val
			default:
				f.Text = key + "=" + val + " " + rest
				rest = ""
			}
		}
		out = append(out, f)
	}
	return out
}

type obligationReport struct {
	Name    string  `json:"name"`
	Kind    string  `json:"kind"`
	Fn      string  `json:"function"`
	Status  string  `json:"status"`
	Solver  string  `json:"solver,omitempty"`
	Second  string  `json:"confirmed_by,omitempty"`
	Seconds float64 `json:"solver_s"`
	Paths   int     `json:"path_instances"`
	MaxS    float64 `json:"slowest_instance_s,omitempty"`
	Goal    string  `json:"goal,omitempty"`
}

func cmdCheck(args []string) int {
	fs := flag.NewFlagSet("check", flag.ExitOnError)
	repo := fs.String("repo", "/repo", "repository")
	verif := fs.String("verif", "/verif", "verif dir")
	prop := fs.String("prop", "", "property id")
	tier := fs.String("tier", os.Getenv("VERIF_TIER"), "quick|thorough")
	noEvidence := fs.Bool("no-evidence", false, "do not write the evidence file (selftest)")
	keep := fs.String("keep", "", "keep query files in this directory")
	fs.Parse(args)
	if *tier == "" {
		*tier = "quick"
	}
	if *prop == "" {
		usage()
	}
	seed, _ := strconv.Atoi(os.Getenv("VERIF_SEED"))
	t0 := time.Now()
	var props map[string]*PropConfig
	data, err := os.ReadFile(filepath.Join(*verif, "props.json"))
	if err != nil {
		fmt.Fprintln(os.Stderr, "cannot read props.json:", err)
		return 3
	}
	if err := json.Unmarshal(data, &props); err != nil {
		fmt.Fprintln(os.Stderr, "props.json:", err)
		return 3
	}
	pc := props[*prop]
	if pc == nil {
		fmt.Fprintln(os.Stderr, "unknown property", *prop)
		return 3
	}
	timeout := 60 * time.Second
	confirm := false
	if *tier == "thorough" {
		timeout = 180 * time.Second
		confirm = true
	}
	dir := *keep
	if dir == "" {
		dir, _ = os.MkdirTemp("", "gvc-"+*prop+"-")
		defer os.RemoveAll(dir)
	} else {
		os.MkdirAll(dir, 0o755)
	}
	findings := loadFindings(filepath.Join(*verif, "known_findings.txt"))
	activeFindings := map[string][]Finding{}
	for _, f := range findings {
		if f.Kind == "finding" && f.Property == *prop {
			activeFindings[f.Obligation] = append(activeFindings[f.Obligation], f)
		}
	}
	sem := make(chan struct{}, 16)
	var reports []obligationReport
	var violations []*aggGoal
	var broken []string
	var fnsUnder, inlined, usedExt, trustedUsed, uncontracted, notes, depFns, axiomsUsed []string
	depSet := map[string]bool{}
	seenUsed := map[string]bool{}
	totalObl, totalOK := 0, 0
	solverTime := 0.0
	solverCount := map[string]int{}
	knownConfirmed := map[string]bool{}
	var samples []interface{}
	nFns := 0
	totalInstr := 0
	var outside []string
	type unitSpec struct {
		inst bool
		pkgs []string
	}
	var units []unitSpec
	if len(pc.Pkgs) > 0 {
		units = append(units, unitSpec{false, pc.Pkgs})
	}
	if pc.Inst {
		units = append(units, unitSpec{true, nil})
	}
	var cs *ContractSet
	var instInfo *InstInfo
	loadS := 0.0
	for _, unit := range units {
		tu := time.Now()
		repoDir := *repo
		pkgs := unit.pkgs
		var unitInst *InstInfo
		if unit.inst {
			ii, err := prepareInst(*repo, *verif, *tier, *prop)
			if err != nil {
				fmt.Fprintln(os.Stderr, "BROKEN-CHECK: instance corpus:", err)
				return 3
			}
			defer ii.cleanup()
			unitInst = ii
			instInfo = ii
			repoDir = ii.dir
			pkgs = ii.pkgs
		}
		p, err := loadProgram(repoDir, pkgs)
		if err != nil {
			// A tree that does not type-check cannot be verified: report as broken build.
			fmt.Fprintln(os.Stderr, "BROKEN-CHECK: cannot load packages:", err)
			return 3
		}
		p.repo = *repo
		cs, err = p.collectContracts(*verif)
		if err != nil {
			fmt.Fprintln(os.Stderr, "BROKEN-CHECK: contracts:", err)
			return 3
		}
		if unitInst != nil {
			if err := unitInst.addContracts(p, cs, *prop); err != nil {
				fmt.Fprintln(os.Stderr, "BROKEN-CHECK: instance contracts:", err)
				return 3
			}
		}
		loadS += time.Since(tu).Seconds()
		var selected []*Contract
		for _, ct := range cs.Order {
			if ct.External || ct.Trusted || ct.Opaque || ct.onlyInline() {
				continue
			}
			serves := hasProp(ct.Props, *prop)
			for _, cl := range append(append([]*Clause{}, ct.Ensures...), ct.Requires...) {
				if hasProp(cl.Props, *prop) && len(cl.Props) > 0 {
					serves = true
				}
			}
			if !serves {
				continue
			}
			if only := os.Getenv("GVC_ONLY"); only != "" && !strings.Contains(ct.Func, only) {
				continue
			}
			if unitInst != nil && len(units) > 1 && ct.File != "synthesised" {
				// hand-written contracts of /repo packages are the business of the hand unit
				continue
			}
			selected = append(selected, ct)
		}
		type verified struct {
			fr   *FnResult
			outs []*goalOutcome
		}
		verifyBatch := func(batch []*Contract) []*verified {
			res := make([]*verified, len(batch))
			var wg sync.WaitGroup
			fsem := make(chan struct{}, 6)
			for i, ct := range batch {
				i, ct := i, ct
				wg.Add(1)
				go func() {
					defer wg.Done()
					fsem <- struct{}{}
					defer func() { <-fsem }()
					t1 := time.Now()
					fr := p.verifyFunctionWith(cs, ct, activeFindings)
					v := &verified{fr: fr}
					capped := len(fr.Unsupported) > 0 && strings.HasPrefix(fr.Unsupported[0], "path cap exceeded")
					if fr.Attached && !capped {
						v.outs = discharge(dir, fr, timeout, confirm, sem, *keep != "")
					}
					if os.Getenv("GVC_DEBUG") != "" {
						fmt.Fprintf(os.Stderr, "%6.1fs %5d goals %4d paths %s\n", time.Since(t1).Seconds(), len(fr.Goals), fr.Paths, shortFn(ct.Func))
					}
					res[i] = v
				}()
			}
			wg.Wait()
			return res
		}
		// The proof of a property is modular: a function under the property is
		// checked against the contracts of its callees, so those contracts are
		// part of the property's proof and their obligations are discharged
		// with it (transitively), whatever property they were written for.
		var results []*verified
		inSel := map[string]bool{}
		for _, ct := range selected {
			inSel[ct.Func] = true
		}
		pending := selected
		selected = nil
		for len(pending) > 0 {
			res := verifyBatch(pending)
			selected = append(selected, pending...)
			results = append(results, res...)
			var next []*Contract
			for _, v := range res {
				for _, n := range v.fr.Used {
					c2 := cs.ByFunc[n]
					if c2 == nil || inSel[n] || c2.External || c2.Trusted || c2.Opaque || c2.onlyInline() || c2.File == "synthesised" {
						continue
					}
					inSel[n] = true
					next = append(next, c2.forProp(*prop))
					depFns = append(depFns, shortFn(n))
					depSet[n] = true
				}
			}
			sort.Slice(next, func(i, j int) bool { return next[i].Func < next[j].Func })
			pending = next
		}
		for i, ct := range selected {
			nFns++
			fr := results[i].fr
			totalInstr += fr.Instrs
			fnsUnder = append(fnsUnder, fmt.Sprintf("%s (%d SSA instrs, %d paths)", shortFn(ct.Func), fr.Instrs, fr.Paths))
			for _, n := range fr.Inlined {
				inlined = append(inlined, n)
			}
			for _, n := range fr.Uncontracted {
				uncontracted = append(uncontracted, n)
			}
			notes = append(notes, fr.Notes...)
			axiomsUsed = append(axiomsUsed, fr.Axioms...)
			for _, n := range fr.Used {
				if seenUsed[n] {
					continue
				}
				seenUsed[n] = true
				if c2 := cs.ByFunc[n]; c2 != nil {
					if c2.External {
						usedExt = append(usedExt, "assumed contract: "+shortFn(n))
					} else if c2.Trusted {
						trustedUsed = append(trustedUsed, "trusted contract on /repo function: "+shortFn(n))
					}
				}
			}
			if ct.File == "synthesised" && len(fr.Unsupported) == 1 && strings.HasPrefix(fr.Unsupported[0], "path cap exceeded") {
				// instance outside the verifier's reach: listed, never counted as pass or violation
				outside = append(outside, shortFn(ct.Func)+": "+fr.Unsupported[0])
				nFns--
				continue
			}
			if !fr.Attached || len(fr.Unsupported) > 0 || len(fr.SpecErrs) > 0 {
				a := &aggGoal{Name: shortFn(ct.Func) + "#attached", Kind: "attached", Fn: ct.Func, Status: "detached", Props: ct.Props}
				why := "function or loop named by the contract not found in the working tree"
				if len(fr.Unsupported) > 0 {
					why = "function left the supported subset: " + strings.Join(fr.Unsupported, "; ")
				}
				if len(fr.SpecErrs) > 0 {
					why = "contract no longer resolves against the code: " + strings.Join(fr.SpecErrs, "; ")
				}
				a.Text = why
				violations = append(violations, a)
				totalObl++
				reports = append(reports, obligationReport{Name: a.Name, Kind: "attached", Fn: shortFn(ct.Func), Status: "detached", Goal: why})
				if !fr.Attached {
					continue
				}
			} else {
				totalObl++
				totalOK++
				reports = append(reports, obligationReport{Name: shortFn(ct.Func) + "#attached", Kind: "attached", Fn: shortFn(ct.Func), Status: "discharged", Solver: "structural"})
			}
			outs := results[i].outs
			agg := aggregate(outs)
			for _, a := range agg {
				if !hasProp(a.Props, *prop) && !depSet[a.Fn] {
					continue
				}
				if a.Kind == "cover" {
					if strings.HasSuffix(a.Name, "#known") {
						if a.OK {
							knownConfirmed[strings.TrimSuffix(a.Name, "#known")] = true
						}
						continue
					}
					if !a.OK {
						broken = append(broken, fmt.Sprintf("vacuity guard %s came back unsat (%s)", a.Name, a.Text))
					}
					continue
				}
				totalObl++
				solverTime += a.Seconds
				r := obligationReport{Name: a.Name, Kind: a.Kind, Fn: shortFn(a.Fn), Status: a.Status, Solver: a.Solver, Second: a.Second, Seconds: round3(a.Seconds), Paths: a.Instances, Goal: a.Text, MaxS: round3(a.MaxSecs)}
				reports = append(reports, r)
				if a.OK {
					totalOK++
					solverCount[a.Solver]++
					if strings.HasPrefix(a.Second, "DISAGREE") {
						broken = append(broken, fmt.Sprintf("solvers disagree on %s: %s", a.Name, a.Second))
					}
					if len(samples) < 6 && a.Kind != "nopanic" && a.Solver != "syntactic" {
						samples = append(samples, map[string]interface{}{"obligation": a.Name, "goal": a.Text, "solver": a.Solver, "solver_s": round3(a.Seconds), "paths": a.Instances})
					}
				} else {
					violations = append(violations, a)
				}
			}
		}
	}
	// spec-level lemmas: pure SMT-LIB scripts, each expected unsat
	for _, ld := range pc.LemmaDirs {
		files, _ := filepath.Glob(filepath.Join(*verif, ld, "*.smt2"))
		sort.Strings(files)
		for _, lf := range files {
			name := "lemma:" + strings.TrimSuffix(filepath.Base(lf), ".smt2")
			data, err := os.ReadFile(lf)
			if err != nil {
				continue
			}
			var b strings.Builder
			b.WriteString("(set-logic ALL)\n")
			for _, l := range strings.Split(string(data), "\n") {
				if strings.HasPrefix(l, "; include:") {
					inc, err := os.ReadFile(filepath.Join(*verif, "spec", strings.TrimSpace(strings.TrimPrefix(l, "; include:"))))
					if err == nil {
						b.Write(inc)
						b.WriteString("\n")
					}
					continue
				}
				b.WriteString(l + "\n")
			}
			qf := filepath.Join(dir, sanitize(name)+".smt2")
			os.WriteFile(qf, []byte(b.String()), 0o644)
			r := solve(qf, timeout, confirm)
			totalObl++
			solverTime += r.Seconds
			rep := obligationReport{Name: name, Kind: "lemma", Fn: lf, Status: "discharged", Solver: r.Solver, Second: r.Second, Seconds: round3(r.Seconds), Paths: 1, Goal: "spec-level lemma (see file header)"}
			if r.Status == "unsat" {
				totalOK++
				solverCount[r.Solver]++
			} else {
				rep.Status = "unknown"
				if r.Status == "sat" {
					rep.Status = "failed"
				}
				violations = append(violations, &aggGoal{Name: name, Kind: "lemma", Fn: lf, Status: rep.Status, Text: "spec-level lemma not discharged: " + lf,
					Fail: &goalOutcome{Goal: &Goal{Name: name}, Res: r, File: qf}})
			}
			reports = append(reports, rep)
		}
	}
	// result
	exit := 0
	nViol := 0
	os.MkdirAll(filepath.Join(*verif, "replays", *prop), 0o755)
	for _, f := range findings {
		if f.Kind == "finding" && f.Property == *prop {
			confirmed := knownConfirmed[f.Obligation]
			if strings.Contains(f.Obligation, "*") {
				for k := range knownConfirmed {
					if globMatch(f.Obligation, k) {
						confirmed = true
					}
				}
			}
			if confirmed {
				fmt.Printf("KNOWN-FINDING: property=%s obligation=%s input={%s} %s\n", *prop, f.Obligation, f.Input, f.Text)
			} else {
				fmt.Printf("note: recorded finding on %s no longer reproduces (region {%s})\n", f.Obligation, f.Region)
			}
		}
	}
	for _, v := range violations {
		nViol++
		rp := filepath.Join(*verif, "replays", *prop, sanitize(v.Name)+".json")
		tail := writeReplay(*repo, *verif, rp, *prop, v, cs)
		fmt.Printf("VIOLATION property=%s replay=%s obligation=%s %s%s\n", *prop, rp, v.Name, v.Status, tail)
		exit = 1
	}
	if len(broken) > 0 {
		for _, b := range broken {
			fmt.Println("BROKEN-CHECK:", b)
		}
		if exit == 0 {
			exit = 2
		}
	}
	if nFns == 0 || totalObl == 0 {
		fmt.Println("BROKEN-CHECK: no obligations generated for", *prop)
		exit = 2
	}
	if pc.MinObl > 0 && totalObl < pc.MinObl {
		fmt.Printf("BROKEN-CHECK: only %d obligations generated for %s, expected at least %d (contracts detached?)\n", totalObl, *prop, pc.MinObl)
		if exit == 0 {
			exit = 2
		}
	}
	wall := time.Since(t0).Seconds()
	fmt.Printf("%s: %d functions under contract, %d obligations, %d discharged, %d violations; load %.1fs, solver %.1fs, wall %.1fs\n",
		*prop, nFns, totalObl, totalOK, nViol, loadS, solverTime, wall)
	if *noEvidence {
		return exit
	}
	// evidence
	sort.Strings(inlined)
	inlined = uniq(inlined)
	sort.Strings(uncontracted)
	uncontracted = uniq(uncontracted)
	sort.Strings(usedExt)
	sort.Strings(trustedUsed)
	notes = uniq(notes)
	trusted := append([]string{
		"go/types + go/ssa (x/tools v0.29.0, NaiveForm) as the front end; gvc's own translation to SMT-LIB",
		"SMT solvers z3 5.1.0 (z3-new), z3 4.8.12, cvc5 1.0.3",
	}, pc.Trusted...)
	trusted = append(trusted, usedExt...)
	trusted = append(trusted, trustedUsed...)
	assumptions := append([]string{
		"integers are exact-width bit-vectors (no mathematical-integer abstraction); references are unbounded Ints",
		"partial correctness unless an obligation kind says otherwise: a path that panics satisfies no postcondition obligation; #nopanic obligations exist only for contracts marked nopanic",
		"A-STDLIB-PURE: fmt/strings/strconv/errors/filepath/math functions do not write to memory reachable from their arguments",
		"A-FUNCVAL: calls through function values resolve to module functions with an identical signature",
	}, pc.Assume...)
	for _, n := range uncontracted {
		assumptions = append(assumptions, "uncontracted callee (results havoc, inferred mod-set havoc): "+n)
	}
	for _, n := range notes {
		assumptions = append(assumptions, "note: "+n)
	}
	for _, l := range pc.Lemmas {
		assumptions = append(assumptions, "unproved lemma: "+l)
	}
	for _, b := range pc.Bounded {
		assumptions = append(assumptions, "bounded stand-in (not counted as proof): "+b)
	}
	if len(samples) == 0 {
		for _, r := range reports {
			samples = append(samples, r)
			if len(samples) >= 3 {
				break
			}
		}
	}
	cov := map[string]interface{}{
		"obligations":              totalObl,
		"discharged":               totalOK,
		"checker_cmd":              fmt.Sprintf("%s/bin/gvc check -prop %s -tier %s -verif %s", *verif, *prop, *tier, *verif),
		"trusted_base":             trusted,
		"samples":                  samples,
		"functions_under_contract": fnsUnder,
		"callee_contracts_included": dedup(depFns),
		"axiom_and_lemma_instances_used": dedup(axiomsUsed),
		"inlined_functions":        inlined,
		"ssa_instructions":         totalInstr,
		"solver_time_s":            round3(solverTime),
		"discharged_by_solver":     solverCount,
		"obligation_list":          reports,
		"known_findings_confirmed": len(knownConfirmed),
		"load_s":                   round3(loadS),
	}
	if len(outside) > 0 {
		cov["outside_reach"] = outside
		for _, o := range outside {
			assumptions = append(assumptions, "outside reach (not verified, not counted): "+o)
		}
	}
	if instInfo != nil {
		cov["skipped_schemas"] = instInfo.skipped
		cov["programs"] = len(instInfo.schemas)
		cov["corpus"] = instInfo.schemas
	}
	ev := map[string]interface{}{
		"property_id": *prop,
		"tier":        *tier,
		"seed":        seed,
		"level":       "proof",
		"coverage":    cov,
		"assumptions": assumptions,
		"wall_s":      round3(wall),
		"violations":  nViol,
	}
	os.MkdirAll(filepath.Join(*verif, "evidence"), 0o755)
	out, _ := json.MarshalIndent(ev, "", " ")
	if err := os.WriteFile(filepath.Join(*verif, "evidence", *prop+".json"), out, 0o644); err != nil {
		fmt.Fprintln(os.Stderr, "cannot write evidence:", err)
		return 3
	}
	return exit
}

func round3(f float64) float64 { return float64(int(f*1000+0.5)) / 1000 }

func uniq(xs []string) []string {
	var out []string
	for i, x := range xs {
		if i == 0 || x != xs[i-1] {
			out = append(out, x)
		}
	}
	return out
}

func cmdSelftest(args []string) int { return selftest(args) }

func dedup(xs []string) []string {
	seen := map[string]bool{}
	out := []string{}
	for _, x := range xs {
		if !seen[x] {
			seen[x] = true
			out = append(out, x)
		}
	}
	sort.Strings(out)
	return out
}
