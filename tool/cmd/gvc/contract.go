package main

// Contract files: comment-only Go files (`//@` lines) in /repo packages behind
// the `verif` build tag, and /verif/external/*.gvc for assumed contracts on
// dependencies. Contracts are keyed by function name and loop ordinal.

import (
	"bufio"
	"fmt"
	"os"
	"regexp"
	"strconv"
	"strings"
)

type Clause struct {
	Kind  string // requires ensures invariant decreases modifies assume
	Props []string
	Text  string
	Loop  int // for loop clauses
	File  string
	Line  int
	Label string // optional label: ensures(name)
	// Assumed: an ensures clause that callers may use but the function itself is
	// not checked against (reported as an assumption in the evidence).
	Assumed bool
}

type Contract struct {
	Func     string // fully qualified ssa name
	Short    string
	Pkg      string
	Props    []string
	Requires []*Clause
	Ensures  []*Clause
	Modifies []*Clause
	Decr     []*Clause
	LoopInv  map[int][]*Clause
	LoopDec  map[int][]*Clause
	LoopMod  map[int][]*Clause
	Inline   bool
	Trusted  bool   // assumed contract on a function whose body is not verified
	External bool   // from /verif/external
	NoPanic  bool   // generate #nopanic obligations
	MayPanic string // documented panics are allowed (reason)
	ErrsUnless string // optional escape of errsfromcallees: `errsfromcallees unless <expr>` (own, specified failure modes)
	ErrsFromCallees bool // clause `errsfromcallees`: a returned error is nil or an error returned by a callee on that path (no new failure modes)
	RegionMerge bool // merge the paths of acyclic single-entry regions at their post-dominator (region.go)
	NoMerge  bool   // do not if-convert conditional blocks (keeps quantified proofs in their path-split shape)
	Pure     bool   // callee does not modify any heap component
	File     string
	Line     int
	Lets     []*Clause // ghost lets: name := expr evaluated at entry
	Covers   []*Clause
	Opaque   bool // body not verified, not trusted either: listed as unverified
	Replay   *replaySpec
	Dispatch string // interface-method contract: the receiver's dynamic type must be this type; the concrete method's contract applies
	Uses     []*Clause // axiom instances assumed at entry
	PostUses []*Clause // axiom instances assumed at every return
	LoopUse  map[int][]*Clause
	NiOuts    []*Clause // observable outputs of the non-interference obligation (default: the first result)
	Secrets   []*Clause // non-interference: locations whose contents must not influence the result (two-run obligation)
	Allocates []*Clause // callee side: the call allocates this many bytes up front (checked against the caller's alloc bounds)
	Allocs   []*Clause // allocation-size bounds (C13): expression over n (element count) and esize
}

type ContractSet struct {
	ByFunc map[string]*Contract
	Order  []*Contract
	// field contracts: "pkg.Type.field" -> contract
	Field map[string]*Contract
	// ghost component declarations: name -> value sort
	Ghost map[string]string
	// spec prelude files
	Spec []string
	// macros: name -> (params, body)
	Macros map[string]*Macro
	// package-level variables that are never reassigned after init and hold
	// non-nil, pairwise distinct values (sentinel errors)
	ConstGlobals map[string]bool
	// protected ghost components change only through contracts that name them
	// (a whole-heap havoc keeps them): assumption A-FSGHOST
	Protected map[string]bool
	// ghost sets that are empty at every freshly allocated reference
	FreshFalse map[string]bool
	// ghost name -> "pkgpath.Type.field": the ghost is represented by that field
	GhostAlias map[string]string
}

type Macro struct {
	Params []string
	Body   string
	Pkg    string
	Kind   string // define | axiom (definitional unfolding, assumed) | lemma (proved separately under /verif/lemmas)
}

func newContractSet() *ContractSet {
	return &ContractSet{ByFunc: map[string]*Contract{}, Field: map[string]*Contract{}, Ghost: map[string]string{}, Macros: map[string]*Macro{}, ConstGlobals: map[string]bool{}, Protected: map[string]bool{}, FreshFalse: map[string]bool{}, GhostAlias: map[string]string{}}
}

var reKind = regexp.MustCompile(`^(requires|ensures|assumed|modifies|decreases|invariant|assume|let|cover|allocates|alloc|use|postuse|secret|niout)(\[[A-Za-z0-9, ]+\])?(\([A-Za-z0-9_.\-]+\))?\s+(.*)$`)
var reLoop = regexp.MustCompile(`^loop\s+(\d+)\s*:\s*(.*)$`)

// qualify turns a short function name used in a contract file into the ssa
// full name: `f` -> pkg.f ; `(*T).m` -> (*pkg.T).m ; `(T).m` -> (pkg.T).m
func qualify(pkg, short string) string {
	if strings.HasPrefix(short, "(") {
		i := strings.Index(short, ")")
		recv := short[1:i]
		star := ""
		if strings.HasPrefix(recv, "*") {
			star = "*"
			recv = recv[1:]
		}
		if strings.Contains(recv, ".") { // already qualified
			return short
		}
		return "(" + star + pkg + "." + recv + ")" + short[i+1:]
	}
	if strings.Contains(short, "/") || strings.Contains(short, ".") && !strings.Contains(short, "$") {
		return short
	}
	return pkg + "." + short
}

func (cs *ContractSet) ParseFile(path string, pkg string, external bool) error {
	f, err := os.Open(path)
	if err != nil {
		return err
	}
	defer f.Close()
	sc := bufio.NewScanner(f)
	sc.Buffer(make([]byte, 1<<20), 1<<20)
	var cur *Contract
	var last *Clause
	var lastMacro *Macro
	ln := 0
	for sc.Scan() {
		ln++
		line := strings.TrimSpace(sc.Text())
		if external {
			if strings.HasPrefix(line, "#") || line == "" {
				continue
			}
			if strings.HasPrefix(line, "package ") {
				pkg = strings.TrimSpace(strings.TrimPrefix(line, "package "))
				continue
			}
		} else {
			if !strings.HasPrefix(line, "//@") {
				continue
			}
			line = strings.TrimSpace(strings.TrimPrefix(line, "//@"))
			if line == "" {
				continue
			}
		}
		if i := strings.Index(line, " //"); i >= 0 { // trailing comment
			line = strings.TrimSpace(line[:i])
		}
		switch {
		case strings.HasPrefix(line, "contract "):
			short := strings.TrimSpace(strings.TrimPrefix(line, "contract "))
			full := qualify(pkg, short)
			if _, dup := cs.ByFunc[full]; dup {
				return fmt.Errorf("%s:%d: duplicate contract for %s", path, ln, full)
			}
			cur = &Contract{Func: full, Short: short, Pkg: pkg, File: path, Line: ln, External: external,
				LoopInv: map[int][]*Clause{}, LoopDec: map[int][]*Clause{}, LoopMod: map[int][]*Clause{}, LoopUse: map[int][]*Clause{}}
			cs.ByFunc[full] = cur
			cs.Order = append(cs.Order, cur)
			last = nil
			lastMacro = nil
			continue
		case strings.HasPrefix(line, "fieldcontract "):
			short := strings.TrimSpace(strings.TrimPrefix(line, "fieldcontract "))
			full := pkg + "." + short
			cur = &Contract{Func: full, Short: short, Pkg: pkg, File: path, Line: ln, External: external,
				LoopInv: map[int][]*Clause{}, LoopDec: map[int][]*Clause{}, LoopMod: map[int][]*Clause{}, LoopUse: map[int][]*Clause{}}
			cs.Field[full] = cur
			last = nil
			lastMacro = nil
			continue
		case strings.HasPrefix(line, "paramcontract "):
			short := strings.TrimSpace(strings.TrimPrefix(line, "paramcontract "))
			i := strings.LastIndex(short, ".")
			full := qualify(pkg, short[:i]) + short[i:]
			cur = &Contract{Func: full, Short: short, Pkg: pkg, File: path, Line: ln, External: external,
				LoopInv: map[int][]*Clause{}, LoopDec: map[int][]*Clause{}, LoopMod: map[int][]*Clause{}, LoopUse: map[int][]*Clause{}}
			cs.Field[full] = cur
			last = nil
			lastMacro = nil
			continue
		case strings.HasPrefix(line, "ghostalias "):
			// ghostalias <ghost> <Type>.<field>  (Type of the contract file's package)
			f := strings.Fields(line)
			if len(f) != 3 || !strings.Contains(f[2], ".") {
				return fmt.Errorf("%s:%d: bad ghostalias", path, ln)
			}
			cs.GhostAlias[f[1]] = pkg + "." + f[2]
			continue
		case strings.HasPrefix(line, "ghost "):
			// ghost <name> <sort...>
			rest := strings.TrimSpace(strings.TrimPrefix(line, "ghost "))
			i := strings.IndexAny(rest, " \t")
			if i < 0 {
				return fmt.Errorf("%s:%d: bad ghost decl", path, ln)
			}
			so := strings.TrimSpace(rest[i:])
			if strings.HasSuffix(so, " freshfalse") {
				so = strings.TrimSpace(strings.TrimSuffix(so, " freshfalse"))
				cs.FreshFalse[rest[:i]] = true
			}
			if strings.HasSuffix(so, " protected") {
				so = strings.TrimSpace(strings.TrimSuffix(so, " protected"))
				cs.Protected[rest[:i]] = true
			}
			cs.Ghost[rest[:i]] = so
			continue
		case strings.HasPrefix(line, "spec "):
			sp := strings.TrimSpace(strings.TrimPrefix(line, "spec "))
			have := false
			for _, x := range cs.Spec {
				if x == sp {
					have = true
				}
			}
			if !have {
				cs.Spec = append(cs.Spec, sp)
			}
			continue
		case strings.HasPrefix(line, "constglobal "):
			cs.ConstGlobals[strings.TrimSpace(strings.TrimPrefix(line, "constglobal "))] = true
			continue
		case strings.HasPrefix(line, "define "), strings.HasPrefix(line, "axiom "), strings.HasPrefix(line, "lemma "):
			// define name(p1, p2) = body ; axiom/lemma: usable in `use` clauses
			kind := strings.Fields(line)[0]
			rest := strings.TrimSpace(strings.TrimPrefix(line, kind+" "))
			i := strings.Index(rest, "(")
			j := strings.Index(rest, ")")
			e := strings.Index(rest, "=")
			if i < 0 || j < i || e < j {
				return fmt.Errorf("%s:%d: bad define", path, ln)
			}
			m := &Macro{Body: strings.TrimSpace(rest[e+1:]), Pkg: pkg, Kind: kind}
			for _, p := range strings.Split(rest[i+1:j], ",") {
				if p = strings.TrimSpace(p); p != "" {
					m.Params = append(m.Params, p)
				}
			}
			cs.Macros[strings.TrimSpace(rest[:i])] = m
			cur = nil
			lastMacro = m
			last = nil
			continue
		}
		if cur == nil {
			if lastMacro != nil {
				lastMacro.Body += " " + line
				continue
			}
			return fmt.Errorf("%s:%d: clause outside contract: %s", path, ln, line)
		}
		loop := 0
		body := line
		if m := reLoop.FindStringSubmatch(line); m != nil {
			loop, _ = strconv.Atoi(m[1])
			body = m[2]
		}
		switch {
		case strings.HasPrefix(body, "props "):
			cur.Props = strings.Fields(strings.TrimPrefix(body, "props "))
			last = nil
			continue
		case strings.HasPrefix(body, "replay "):
			cur.Replay = parseReplay(strings.TrimPrefix(body, "replay "))
			last = nil
			continue
		case strings.HasPrefix(body, "dispatch "):
			cur.Dispatch = strings.TrimSpace(strings.TrimPrefix(body, "dispatch "))
			last = nil
			continue
		case body == "inline":
			cur.Inline = true
			last = nil
			continue
		case body == "trusted":
			cur.Trusted = true
			last = nil
			continue
		case body == "opaque":
			cur.Opaque = true
			last = nil
			continue
		case body == "nopanic":
			cur.NoPanic = true
			last = nil
			continue
		case body == "nomerge":
			cur.NoMerge = true
			last = nil
			continue
		case body == "pure":
			cur.Pure = true
			last = nil
			continue
		case body == "errsfromcallees" || strings.HasPrefix(body, "errsfromcallees unless "):
			cur.ErrsFromCallees = true
			cur.ErrsUnless = strings.TrimSpace(strings.TrimPrefix(strings.TrimPrefix(body, "errsfromcallees"), " unless"))
			last = nil
			continue
		case strings.HasPrefix(body, "maypanic"):
			cur.MayPanic = strings.TrimSpace(strings.TrimPrefix(body, "maypanic"))
			if cur.MayPanic == "" {
				cur.MayPanic = "documented"
			}
			last = nil
			continue
		}
		if m := reKind.FindStringSubmatch(body); m != nil {
			cl := &Clause{Kind: m[1], Text: m[4], Loop: loop, File: path, Line: ln}
			if m[2] != "" {
				for _, p := range strings.Split(strings.Trim(m[2], "[]"), ",") {
					cl.Props = append(cl.Props, strings.TrimSpace(p))
				}
			}
			if m[3] != "" {
				cl.Label = strings.Trim(m[3], "()")
			}
			switch {
			case loop > 0 && cl.Kind == "invariant":
				cur.LoopInv[loop] = append(cur.LoopInv[loop], cl)
			case loop > 0 && cl.Kind == "decreases":
				cur.LoopDec[loop] = append(cur.LoopDec[loop], cl)
			case loop > 0 && cl.Kind == "modifies":
				cur.LoopMod[loop] = append(cur.LoopMod[loop], cl)
			case cl.Kind == "requires":
				cur.Requires = append(cur.Requires, cl)
			case cl.Kind == "ensures":
				cur.Ensures = append(cur.Ensures, cl)
			case cl.Kind == "assumed":
				// an ensures clause the function is not checked against (callers may use it; listed in the evidence)
				cl.Kind = "ensures"
				cl.Assumed = true
				cur.Ensures = append(cur.Ensures, cl)
			case cl.Kind == "modifies":
				cur.Modifies = append(cur.Modifies, cl)
			case cl.Kind == "decreases":
				cur.Decr = append(cur.Decr, cl)
			case cl.Kind == "let":
				cur.Lets = append(cur.Lets, cl)
			case cl.Kind == "cover":
				cur.Covers = append(cur.Covers, cl)
			case cl.Kind == "alloc":
				cur.Allocs = append(cur.Allocs, cl)
			case cl.Kind == "secret":
				cur.Secrets = append(cur.Secrets, cl)
			case cl.Kind == "niout":
				cur.NiOuts = append(cur.NiOuts, cl)
			case cl.Kind == "allocates":
				cur.Allocates = append(cur.Allocates, cl)
			case loop > 0 && cl.Kind == "use":
				cur.LoopUse[loop] = append(cur.LoopUse[loop], cl)
			case cl.Kind == "use":
				cur.Uses = append(cur.Uses, cl)
			case cl.Kind == "postuse":
				cur.PostUses = append(cur.PostUses, cl)
			default:
				return fmt.Errorf("%s:%d: misplaced clause %s", path, ln, cl.Kind)
			}
			last = cl
			continue
		}
		// continuation of the previous clause
		if last != nil {
			last.Text += " " + body
			continue
		}
		return fmt.Errorf("%s:%d: cannot parse: %s", path, ln, line)
	}
	return sc.Err()
}

// clauseProps: the properties a clause serves (clause-level overrides contract-level).
func (c *Contract) clauseProps(cl *Clause) []string {
	if cl != nil && len(cl.Props) > 0 {
		return cl.Props
	}
	return c.Props
}

func hasProp(ps []string, p string) bool {
	if p == "" {
		return true
	}
	for _, x := range ps {
		if x == p {
			return true
		}
	}
	return false
}


// onlyInline: the contract only marks the function as an inlinable leaf.
func (c *Contract) onlyInline() bool {
	return c.Inline && len(c.Requires) == 0 && len(c.Ensures) == 0 && len(c.Modifies) == 0 && len(c.Secrets) == 0
}

// forProp: the same contract counted towards another property (a callee
// contract that a function under that property is checked against).
func (c *Contract) forProp(p string) *Contract {
	d := *c
	if !hasProp(d.Props, p) {
		d.Props = append(append([]string{}, d.Props...), p)
	}
	return &d
}
