package main

// Symbolic executor over go/ssa (NaiveForm). Forward execution of acyclic
// segments between cut points (entry, loop heads, returns); loops are cut at
// their heads with invariants; calls use the callee's contract, are inlined
// (leaf helpers marked `inline`) or havoc the callee's inferred mod-set.

import (
	"fmt"
	"go/token"
	"go/types"
	"math/big"
	"os"
	"regexp"
	"sort"
	"strings"

	"golang.org/x/tools/go/ssa"
)

type loopInfo struct {
	head *ssa.BasicBlock
	body map[*ssa.BasicBlock]bool
	ord  int
	fn   *ssa.Function
}

type FnCtx struct {
	fn       *ssa.Function
	ct       *Contract
	top      bool
	onReturn func(st *State, results []Val)
	names    map[string]tv
	loops    map[*ssa.BasicBlock]*loopInfo
	prefix   string // obligation name prefix
	instrOrd map[ssa.Instruction]int
}

type unsupportedErr struct{ msg string }

func unsupported(format string, args ...interface{}) {
	panic(unsupportedErr{fmt.Sprintf(format, args...)})
}

func findLoops(fn *ssa.Function) map[*ssa.BasicBlock]*loopInfo {
	loops := map[*ssa.BasicBlock]*loopInfo{}
	for _, b := range fn.Blocks {
		for _, s := range b.Succs {
			if s.Dominates(b) { // back edge b -> s
				li := loops[s]
				if li == nil {
					li = &loopInfo{head: s, body: map[*ssa.BasicBlock]bool{s: true}, fn: fn}
					loops[s] = li
				}
				// reverse reachability from b up to s
				var stack []*ssa.BasicBlock
				if !li.body[b] {
					li.body[b] = true
					stack = append(stack, b)
				}
				for len(stack) > 0 {
					x := stack[len(stack)-1]
					stack = stack[:len(stack)-1]
					for _, p := range x.Preds {
						if !li.body[p] {
							li.body[p] = true
							stack = append(stack, p)
						}
					}
				}
			}
		}
	}
	var heads []*ssa.BasicBlock
	for h := range loops {
		heads = append(heads, h)
	}
	sort.Slice(heads, func(i, j int) bool { return heads[i].Index < heads[j].Index })
	for i, h := range heads {
		loops[h].ord = i + 1
	}
	return loops
}

func instrKind(in ssa.Instruction) string {
	switch x := in.(type) {
	case *ssa.Call:
		return "call"
	case *ssa.FieldAddr, *ssa.Field:
		return "field"
	case *ssa.IndexAddr, *ssa.Index:
		return "index"
	case *ssa.Slice:
		return "slice"
	case *ssa.MakeSlice, *ssa.MakeMap:
		return "make"
	case *ssa.TypeAssert:
		return "assert"
	case *ssa.Panic:
		return "panic"
	case *ssa.UnOp:
		if x.Op == token.MUL {
			return "load"
		}
	case *ssa.Store:
		return "store"
	case *ssa.BinOp:
		return "binop"
	case *ssa.MapUpdate:
		return "mapupdate"
	case *ssa.Alloc:
		return "alloc"
	}
	return "other"
}

func instrOrdinals(fn *ssa.Function) map[ssa.Instruction]int {
	m := map[ssa.Instruction]int{}
	cnt := map[string]int{}
	for _, b := range fn.Blocks {
		for _, in := range b.Instrs {
			k := instrKind(in)
			cnt[k]++
			m[in] = cnt[k]
		}
	}
	return m
}

func isPrivateAlloc(a *ssa.Alloc) bool {
	if a.Heap {
		return false
	}
	var ok func(v ssa.Value, addr ssa.Value) bool
	ok = func(v ssa.Value, addr ssa.Value) bool {
		refs := v.Referrers()
		if refs == nil {
			return false
		}
		for _, r := range *refs {
			switch x := r.(type) {
			case *ssa.Store:
				if x.Val == v {
					return false
				}
			case *ssa.UnOp:
				if x.Op != token.MUL {
					return false
				}
			case *ssa.FieldAddr:
				if !ok(x, x) {
					return false
				}
			case *ssa.IndexAddr:
				if x.X != v || !ok(x, x) {
					return false
				}
			case *ssa.DebugRef:
			default:
				return false
			}
		}
		return true
	}
	return ok(a, a)
}

func (ex *Exec) posOf(in ssa.Instruction) string {
	p := ex.prog.prog.Fset.Position(in.Pos())
	if !p.IsValid() {
		// try the block's other instructions
		return in.Parent().Name()
	}
	return fmt.Sprintf("%s:%d", strings.TrimPrefix(p.Filename, ex.prog.repo+"/"), p.Line)
}

// goal records a proof obligation at the current point of the path.
func (ex *Exec) goal(st *State, kind, name string, g Term, props []string, pos, text string, cl *Clause) {
	env := ex.curEnv
	// known findings: prove the obligation outside the recorded failing region
	// and re-confirm that the region still fails.
	fs := ex.findings[name]
	for pat, pf := range ex.findings {
		if strings.Contains(pat, "*") {
			if globMatch(pat, name) {
				fs = append(fs, pf...)
			}
		}
	}
	if len(fs) > 0 && env != nil {
		for _, f := range fs {
			r, err := env.evalBool(f.Region)
			if err != nil {
				ex.specErrs = append(ex.specErrs, fmt.Sprintf("known_findings.txt region of %s: %v", name, err))
				continue
			}
			ex.cover(st, name+"#known", and(r, not(g)), props, "recorded finding still fails: "+f.Region)
			g = implies(not(r), g)
		}
	}
	if g.S == "true" {
		// trivially true: still counted as an obligation, discharged syntactically
		ex.goals = append(ex.goals, &Goal{Name: name, Kind: kind, Fn: ex.fn.String(), Props: props, Pos: pos, Text: text, Goal: g, Expect: "unsat", Clause: cl})
		return
	}
	gl := &Goal{Name: name, Kind: kind, Fn: ex.fn.String(), Props: props, Pos: pos, Text: text,
		Prefix: append([]string(nil), st.log...), Goal: g, Expect: "unsat", Clause: cl, PathTag: strings.Join(st.pathTag, ",")}
	if ex.ct != nil && ex.ct.Replay != nil && env != nil {
		for _, in := range ex.ct.Replay.Inputs {
			v, err := env.evalTerm(in.Expr)
			if err != nil {
				continue
			}
			v = env.needTerm(v)
			gl.Inputs = append(gl.Inputs, goalInput{in.Name, v.T})
		}
	}
	ex.goals = append(ex.goals, gl)
}

func (ex *Exec) cover(st *State, name string, g Term, props []string, text string) {
	gl := &Goal{Name: name, Kind: "cover", Fn: ex.fn.String(), Props: props, Text: text,
		Prefix: append([]string(nil), st.log...), Goal: g, Expect: "sat"}
	ex.goals = append(ex.goals, gl)
}

// ---------------------------------------------------------------------------
// value access

func (ex *Exec) val(st *State, v ssa.Value) Val {
	switch x := v.(type) {
	case *ssa.Const:
		if x.Value == nil {
			t := x.Type()
			if _, ok := t.Underlying().(*types.Struct); ok {
				return ex.u.zeroOf(t)
			}
			if _, ok := t.Underlying().(*types.Array); ok {
				return ex.u.zeroOf(t)
			}
			return ex.u.zeroOf(t)
		}
		return ex.u.constTerm(x.Value, x.Type())
	case *ssa.Function:
		return &Closure{Fn: x}
	case *ssa.Global:
		return &Ptr{Ref: ex.prog.globalRef(ex, x.Object().(*types.Var)), Obj: x.Type().(*types.Pointer).Elem()}
	case *ssa.Builtin:
		return x
	}
	r, ok := st.env[v]
	if !ok {
		unsupported("value %s (%T) not in environment", v.Name(), v)
	}
	return r
}

func (ex *Exec) term(st *State, v ssa.Value) Term {
	return ex.asTerm(st, ex.val(st, v), v.Type())
}

func (ex *Exec) asTerm(st *State, x Val, t types.Type) Term {
	switch y := x.(type) {
	case Term:
		return y
	case *Ptr:
		return ex.reify(y)
	case *Closure:
		// function value as an opaque reference
		return ex.closureRef(st, y)
	}
	unsupported("cannot use %T as term", x)
	return Term{}
}

func (ex *Exec) closureRef(st *State, c *Closure) Term {
	if len(c.Bindings) == 0 && c.Recv == nil {
		// static function: stable id
		id, ok := ex.fnIDs[c.Fn]
		if !ok {
			id = len(ex.fnIDs) + 1
			ex.fnIDs[c.Fn] = id
		}
		return intLit(int64(-1000000 - id))
	}
	r := ex.newRef(st)
	ex.closures[r.S] = c
	return r
}

func (ex *Exec) reify(p *Ptr) Term {
	if p.Cell != nil {
		unsupported("address of private cell %s escapes", p.Cell.name)
	}
	if len(p.Path) == 0 && !p.ArrObj {
		return p.Ref
	}
	if !p.ArrObj && len(p.Path) == 1 && p.Path[0].Idx == nil {
		if stt, ok := p.Obj.Underlying().(*types.Struct); ok {
			ft := stt.Field(p.Path[0].Field).Type()
			if _, ok := ft.Underlying().(*types.Array); ok {
				return ex.embRef(ex.u.structOf(p.Obj), p.Path[0].Field, p.Ref)
			}
			// pointer to a field of a heap struct: injective reference; the
			// symbolic address is remembered so that loads and stores through
			// it go to the field's own component
			t := ex.fieldRef(p.Obj, p.Path[0].Field, p.Ref)
			ex.reified[t.S] = p
			return t
		}
	}
	unsupported("cannot reify interior pointer (path length %d)", len(p.Path))
	return Term{}
}

// fieldRef: reference denoting &obj.field for non-array fields. These are
// modelled as distinct negative references; loads/stores through them are
// redirected to the field component (see ptrOf).
func (ex *Exec) fieldRef(obj types.Type, field int, r Term) Term {
	si := ex.u.structOf(obj)
	key := fmt.Sprintf("%s|%d", si.name, field)
	k, ok := ex.u.embed[key]
	if !ok {
		k = len(ex.u.embed) + 1
		ex.u.embed[key] = k
	}
	ex.fieldRefs[k] = fieldRefInfo{obj, field}
	return Term{fmt.Sprintf("(- (+ (* %s 1024) %d))", r.S, k), sInt}
}

type fieldRefInfo struct {
	obj   types.Type
	field int
}

// ptrOf views a value of pointer type as an address.
func (ex *Exec) ptrOf(st *State, v ssa.Value) *Ptr {
	x := ex.val(st, v)
	switch y := x.(type) {
	case *Ptr:
		return y
	case Term:
		pt, ok := v.Type().Underlying().(*types.Pointer)
		if !ok {
			unsupported("ptrOf non-pointer %s", v.Type())
		}
		if p, ok := ex.reified[y.S]; ok {
			return p
		}
		return &Ptr{Ref: y, Obj: pt.Elem()}
	}
	unsupported("ptrOf %T", x)
	return nil
}

// derefCheck: nil-dereference obligation / assumption for Ref-based pointers.
func (ex *Exec) derefCheck(st *State, fc *FnCtx, p *Ptr, in ssa.Instruction) {
	if p.Cell != nil || p.ArrObj {
		return
	}
	r := p.Ref
	if st.nonnil[r.S] || strings.HasPrefix(r.S, "(- (+ (* ") {
		return
	}
	if _, err := fmt.Sscanf(r.S, "%d", new(int)); err == nil && r.S != "0" {
		return // global
	}
	nn := not(eq(r, tNull))
	if ex.nopanic {
		ex.goal(st, "nopanic", fmt.Sprintf("%s#nopanic.nil@%s%d", fc.prefix, instrKind(in), fc.instrOrd[in]), nn, ex.ct.Props, ex.posOf(in), "nil dereference: "+in.String(), nil)
	}
	st.assume(nn)
	st.nonnil[r.S] = true
}

// ---------------------------------------------------------------------------

func (ex *Exec) newFnCtx(fn *ssa.Function, ct *Contract, top bool, prefix string) *FnCtx {
	return &FnCtx{fn: fn, ct: ct, top: top, loops: findLoops(fn), prefix: prefix, instrOrd: instrOrdinals(fn)}
}

// runBlock executes block b (arriving from pred) to the end of every path.
func (ex *Exec) runBlock(st *State, fc *FnCtx, b *ssa.BasicBlock, pred *ssa.BasicBlock) {
	if ex.regionStop != nil && b == ex.regionStop && ex.regionEnds != nil && fc.fn == b.Parent() {
		*ex.regionEnds = append(*ex.regionEnds, regionEnd{st, pred})
		return
	}
	if ex.paths > ex.maxPaths {
		unsupported("path cap exceeded (%d)", ex.maxPaths)
	}
	if li, ok := fc.loops[b]; ok {
		if !ex.enterLoop(st, fc, li, pred) {
			return
		}
	}
	ex.runInstrs(st, fc, b, 0, pred)
}

func (ex *Exec) runInstrs(st *State, fc *FnCtx, b *ssa.BasicBlock, start int, pred *ssa.BasicBlock) {
	for i := start; i < len(b.Instrs); i++ {
		in := b.Instrs[i]
		switch x := in.(type) {
		case *ssa.If:
			c := ex.term(st, x.Cond)
			if c.S == "true" {
				ex.runBlock(st, fc, b.Succs[0], b)
				return
			}
			if c.S == "false" {
				ex.runBlock(st, fc, b.Succs[1], b)
				return
			}
			if ex.tryDiamond(st, fc, b, c) {
				return
			}
			if ex.tryRegion(st, fc, b, c) {
				return
			}
			st2 := st.clone()
			st.assume(c)
			st.pathTag = append(st.pathTag, fmt.Sprintf("b%d+", b.Index))
			st2.assume(not(c))
			st2.pathTag = append(st2.pathTag, fmt.Sprintf("b%d-", b.Index))
			ex.paths++
			ex.runBlock(st, fc, b.Succs[0], b)
			ex.runBlock(st2, fc, b.Succs[1], b)
			return
		case *ssa.Jump:
			if ex.diamondStop != nil && b.Succs[0] == ex.diamondStop && ex.diamondEnds != nil {
				*ex.diamondEnds = append(*ex.diamondEnds, st)
				return
			}
			ex.runBlock(st, fc, b.Succs[0], b)
			return
		case *ssa.Return:
			var res []Val
			for _, r := range x.Results {
				res = append(res, ex.val(st, r))
			}
			fc.onReturn(st, res)
			return
		case *ssa.Panic:
			if ex.nopanic && (ex.ct == nil || ex.ct.MayPanic == "") {
				ex.goal(st, "nopanic", fmt.Sprintf("%s#nopanic.explicit@%d", fc.prefix, fc.instrOrd[in]), tFalse, ex.ct.Props, ex.posOf(in), "explicit panic reachable: "+in.String(), nil)
			}
			return
		case *ssa.Call:
			// calls may fork the path: continue in a continuation
			rest := i + 1
			ex.doCall(st, fc, x, x.Common(), func(st2 *State, res Val) {
				if res != nil {
					st2.env[x] = res
				}
				ex.runInstrs(st2, fc, b, rest, pred)
			})
			return
		case *ssa.Defer:
			var args []Val
			for _, a := range x.Call.Args {
				args = append(args, ex.val(st, a))
			}
			var fnv Val
			if !x.Call.IsInvoke() {
				fnv = ex.val(st, x.Call.Value)
			} else {
				fnv = ex.val(st, x.Call.Value)
			}
			cc := x.Call
			st.defers = append(st.defers, deferred{call: &cc, args: args, fnv: fnv})
		case *ssa.RunDefers:
			if len(st.defers) > 0 {
				rest := i + 1
				ex.runDefers(st, fc, func(st2 *State) {
					ex.runInstrs(st2, fc, b, rest, pred)
				})
				return
			}
		case *ssa.Go:
			unsupported("go statement")
		case *ssa.Select:
			unsupported("select statement")
		case *ssa.Send:
			unsupported("channel send")
		case *ssa.DebugRef:
		default:
			forked := ex.step(st, fc, in, pred, func(st2 *State) {
				ex.runInstrs(st2, fc, b, i+1, pred)
			})
			if forked {
				return
			}
		}
	}
}

func (ex *Exec) runDefers(st *State, fc *FnCtx, k func(st *State)) {
	if len(st.defers) == 0 {
		k(st)
		return
	}
	d := st.defers[len(st.defers)-1]
	st.defers = st.defers[:len(st.defers)-1]
	ex.callValue(st, fc, d.call, d.fnv, d.args, nil, func(st2 *State, res Val) {
		ex.runDefers(st2, fc, k)
	})
}

// enterLoop handles a loop head cut point. Returns false when the path ends here.
func (ex *Exec) enterLoop(st *State, fc *FnCtx, li *loopInfo, pred *ssa.BasicBlock) bool {
	ct := fc.ct
	var invs, decs []*Clause
	if ct != nil {
		invs = ct.LoopInv[li.ord]
		decs = ct.LoopDec[li.ord]
	}
	props := []string(nil)
	if ct != nil {
		props = ct.Props
	}
	env := ex.specEnvAt(st, fc)
	evalInv := func(cl *Clause) Term {
		t, err := env.evalBool(cl.Text)
		if err != nil {
			ex.specError(cl, err)
			return tTrue
		}
		return t
	}
	evalDec := func() []Term {
		var out []Term
		for _, cl := range decs {
			for _, part := range splitTop(cl.Text) {
				v, err := env.evalTerm(part)
				if err != nil {
					ex.specError(cl, err)
					continue
				}
				v = env.needTerm(v)
				out = append(out, toMeasure(v))
			}
		}
		return out
	}
	lms, lcells := ex.loopEffect(fc, li)
	if ct != nil {
		// axiom instances may be assumed anywhere: also before the invariants
		// are checked (on entry and at the back edge)
		ex.assumeUses(st, env, ct.LoopUse[li.ord])
	}
	if lc, open := st.open[li.head]; open {
		// back edge: preservation
		for _, f := range ex.frameInvariant(st, fc, lms) {
			ex.goal(st, "frame", fmt.Sprintf("%s#loop%d.frame.preserve", fc.prefix, li.ord), f, props, "", "declared frame holds after each iteration", ct.Modifies[0])
		}
		for k, cl := range invs {
			ex.goal(st, "inv", fmt.Sprintf("%s#loop%d.inv%s.preserve", fc.prefix, li.ord, invName(cl, k)), evalInv(cl), ct.clauseProps(cl), fmt.Sprintf("%s:%d", cl.File, cl.Line), cl.Text, cl)
		}
		if len(decs) > 0 {
			now := evalDec()
			ex.goal(st, "dec", fmt.Sprintf("%s#loop%d.dec", fc.prefix, li.ord), lexLess(now, lc.variant), props, "", "variant decreases: "+decs[0].Text, decs[0])
		}
		return false
	}
	// first arrival: establish
	for k, cl := range invs {
		ex.goal(st, "inv", fmt.Sprintf("%s#loop%d.inv%s.init", fc.prefix, li.ord, invName(cl, k)), evalInv(cl), ct.clauseProps(cl), fmt.Sprintf("%s:%d", cl.File, cl.Line), cl.Text, cl)
	}
	for _, f := range ex.frameInvariant(st, fc, lms) {
		ex.goal(st, "frame", fmt.Sprintf("%s#loop%d.frame.init", fc.prefix, li.ord), f, props, "", "declared frame holds on loop entry", ct.Modifies[0])
	}
	ex.havocLoop(st, fc, li, lms, lcells)
	for _, f := range ex.frameInvariant(st, fc, lms) {
		st.assume(f)
	}
	env = ex.specEnvAt(st, fc)
	for _, cl := range invs {
		st.assume(evalInv(cl))
	}
	if ct != nil {
		ex.assumeUses(st, env, ct.LoopUse[li.ord])
	}
	lc := &loopCtx{}
	if len(decs) > 0 {
		lc.variant = evalDec()
		// snapshot variant values in constants
		for i, v := range lc.variant {
			c := ex.fresh("var", v.So)
			st.assume(eq(c, v))
			lc.variant[i] = c
		}
	}
	st.open[li.head] = lc
	if len(invs) > 0 && ct != nil {
		ex.cover(st, fmt.Sprintf("%s#loop%d.cover", fc.prefix, li.ord), tTrue, props, "loop invariants satisfiable")
	}
	return true
}

func invName(cl *Clause, k int) string {
	if cl.Label != "" {
		return "(" + cl.Label + ")"
	}
	return fmt.Sprintf("%d", k+1)
}

// toMeasure widens a variant component to a signed 128-bit value.
func toMeasure(v tv) Term {
	if v.T.So == sInt {
		return v.T
	}
	if _, ok := isBV(v.T.So); ok {
		return resize(v.T, 128, v.Ty == nil || isSigned(v.Ty))
	}
	panic(specErr{"variant must be an integer"})
}

func lexLess(now, before []Term) Term {
	if len(now) != len(before) || len(now) == 0 {
		return tFalse
	}
	lt := func(a, b Term) Term {
		if a.So == sInt {
			return and(mk(sBool, "<", a, b), mk(sBool, "<=", intLit(0), b))
		}
		zero := bvLit(128, big.NewInt(0))
		return and(mk(sBool, "bvslt", a, b), mk(sBool, "bvsle", zero, b))
	}
	// (a0<b0 && b0>=0) || (a0==b0 && rest)
	var rec func(i int) Term
	rec = func(i int) Term {
		if i == len(now)-1 {
			return lt(now[i], before[i])
		}
		return or(lt(now[i], before[i]), and(eq(now[i], before[i]), rec(i+1)))
	}
	return rec(0)
}

func splitTop(s string) []string {
	var out []string
	depth := 0
	start := 0
	for i, c := range s {
		switch c {
		case '(', '[':
			depth++
		case ')', ']':
			depth--
		case ',':
			if depth == 0 {
				out = append(out, strings.TrimSpace(s[start:i]))
				start = i + 1
			}
		}
	}
	out = append(out, strings.TrimSpace(s[start:]))
	return out
}

// loopEffect: components and private cells the loop body may modify.
func (ex *Exec) loopEffect(fc *FnCtx, li *loopInfo) (*ModSet, map[*ssa.Alloc]bool) {
	ms := newModSet()
	cells := map[*ssa.Alloc]bool{}
	for b := range li.body {
		for _, in := range b.Instrs {
			switch x := in.(type) {
			case *ssa.Store:
				if a := rootAlloc(x.Addr); a != nil && isPrivateAlloc(a) {
					cells[a] = true
				} else {
					// an allocation inside the loop body is fresh relative to the loop entry
					ms.curFresh = freshRoot(x.Addr) && allocInLoop(x.Addr, li)
					ex.prog.storeEffect(ms, normalizeAddr(x.Addr))
					ms.curFresh = false
				}
			case *ssa.MapUpdate:
				mt := x.Map.Type().Underlying().(*types.Map)
				mm, isMk := x.Map.(*ssa.MakeMap)
				ms.curFresh = isMk && li.body[mm.Block()]
				ms.addMap(mt)
				ms.curFresh = false
			case ssa.CallInstruction:
				ex.prog.callEffect(ex.cs, ms, x.Common(), fc.fn)
			}
		}
	}
	return ms, cells
}

// frameInvariant: for every component of ms that differs from the entry heap,
// locations allocated at function entry and not declared in the contract's
// modifies clauses still hold their entry contents.
func (ex *Exec) frameInvariant(st *State, fc *FnCtx, ms *ModSet) []Term {
	if !fc.top || fc.ct == nil || len(fc.ct.Modifies) == 0 || st.entry == nil || ms.all {
		return nil
	}
	if st.entry.modRefs == nil {
		entryEnv := &SpecEnv{ex: ex, st: st, heap: st.entry.heap, names: fc.names, pkg: fnPkg(fc.fn), alloc: st.entry.alloc}
		refs, extra := ex.modifiedRefs(entryEnv, fc.ct)
		if extra.all {
			return nil
		}
		st.entry.modRefs = refs
	}
	var out []Term
	for _, c := range ms.sorted() {
		cur, ok := st.heap.m[c]
		if !ok {
			continue
		}
		old, ok2 := st.entry.heap.m[c]
		if !ok2 {
			old = ex.comp(st.entry.heap, c, ex.compValSort(ms.comps[c]))
		}
		if old.S == cur.S {
			continue
		}
		ex.counter++
		r := Term{fmt.Sprintf("fr_%d", ex.counter), sInt}
		guard := []Term{mk(sBool, "<=", r, st.entry.alloc)}
		for _, lr := range st.entry.modRefs[c] {
			guard = append(guard, not(eq(r, lr)))
		}
		out = append(out, Term{fmt.Sprintf("(forall ((%s Int)) (! (=> %s (= (select %s %s) (select %s %s))) :pattern ((select %s %s))))",
			r.S, and(guard...).S, cur.S, r.S, old.S, r.S, cur.S, r.S), sBool})
	}
	return out
}

// havocLoop forgets everything the loop body may modify.
func (ex *Exec) havocLoop(st *State, fc *FnCtx, li *loopInfo, ms *ModSet, cells map[*ssa.Alloc]bool) {
	for a := range cells {
		if c, ok := st.cellOf[a]; ok {
			v := ex.fresh("lv_"+sanitize(a.Comment), ex.u.sortOf(c.typ))
			st.cells[c] = v
			ex.assumeWellTyped(st, v, c.typ)
		}
	}
	for b := range li.body {
		for _, in := range b.Instrs {
			if nx, ok := in.(*ssa.Next); ok {
				if it, ok := st.env[nx.Iter].(*RangeIter); ok && it.Instr != nil {
					if vis, ok := st.visited[it.Instr]; ok {
						st.visited[it.Instr] = ex.fresh("visited", vis.So)
					}
				}
			}
		}
	}
	ex.applyModSet(st, ms, nil)
	ex.bumpAlloc(st)
}

// applyModSet havocs the components of ms. keep (optional) maps component ->
// refs whose contents are the only ones that change (declared modifies).
func (ex *Exec) applyModSet(st *State, ms *ModSet, only map[string][]Term) {
	if ms.all {
		ex.havocHeap(st)
		return
	}
	fresh := newModSet()
	for _, c := range ms.sorted() {
		ci := ms.comps[c]
		if !ms.nonfresh[c] {
			fresh.comps[c] = ci
			continue
		}
		vs := ex.compValSort(ci)
		nv := ex.fresh("hv", arraySort(sInt, vs))
		ex.compSorts[c] = vs
		st.heap.m[c] = nv
		st.pendingBound = append(st.pendingBound, c)
	}
	if len(fresh.comps) > 0 {
		// written only at objects allocated by the callee / loop itself:
		// everything allocated before keeps its contents
		ex.applyFramed(st, fresh, nil, st.alloc)
	}
}

// compValSort: SMT sort of the values of a component.
func (ex *Exec) compValSort(ci compInfo) string {
	switch ci.kind {
	case 'F':
		return ex.u.structOf(ci.t).fields[ci.idx]
	case 'A':
		return arraySort(sBV64, ex.u.sortOf(ci.t))
	case 'C':
		return ex.u.sortOf(ci.t)
	case 'P':
		return arraySort(ex.u.sortOf(ci.t), sBool)
	case 'V':
		return arraySort(ex.u.sortOf(ci.t), ex.u.sortOf(ci.t2))
	case 'L':
		return sBV64
	case 'G':
		return ex.cs.Ghost[ci.name]
	}
	panic("compValSort")
}

// allocInLoop: the root allocation of an address chain lies inside the loop body.
func allocInLoop(v ssa.Value, li *loopInfo) bool {
	for {
		switch x := v.(type) {
		case *ssa.Alloc:
			return li.body[x.Block()]
		case *ssa.MakeSlice:
			return li.body[x.Block()]
		case *ssa.FieldAddr:
			v = x.X
		case *ssa.IndexAddr:
			v = x.X
		case *ssa.Slice:
			v = x.X
		default:
			return false
		}
	}
}

func rootAlloc(v ssa.Value) *ssa.Alloc {
	for {
		switch x := v.(type) {
		case *ssa.Alloc:
			return x
		case *ssa.FieldAddr:
			v = x.X
		case *ssa.IndexAddr:
			if _, ok := x.X.Type().Underlying().(*types.Pointer); ok {
				v = x.X
			} else {
				return nil
			}
		default:
			return nil
		}
	}
}

func (ex *Exec) specError(cl *Clause, err error) {
	msg := fmt.Sprintf("%s:%d: %v", cl.File, cl.Line, err)
	ex.specErrs = append(ex.specErrs, msg)
}

// specEnvAt builds the contract-expression environment at the current point
// of a path inside fc (for invariants and asserts).
func (ex *Exec) specEnvAt(st *State, fc *FnCtx) *SpecEnv {
	env := &SpecEnv{ex: ex, st: st, heap: st.heap, names: map[string]tv{}, pkg: fnPkg(fc.fn), alloc: st.alloc}
	if st.entry != nil {
		env.old = st.entry.heap
		env.oldAlloc = st.entry.alloc
		env.oldNames = map[string]tv{}
		for n, v := range fc.names {
			env.oldNames[n] = v
			env.names[n+"0"] = v
		}
		for n, v := range st.entry.lets {
			env.names[n] = v
			env.oldNames[n] = v
		}
	}
	env.locals = func(name string) (tv, bool) {
		if name == "ridx" {
			name = "rangeindex"
		}
		if len(name) == 5 && strings.HasPrefix(name, "ridx") && name[4] >= '1' && name[4] <= '9' {
			// ridxN: the index cell of the N-th slice range of the function (block order)
			want := int(name[4] - '0')
			n := 0
			for _, b := range fc.fn.Blocks {
				for _, in := range b.Instrs {
					a, ok := in.(*ssa.Alloc)
					if !ok || a.Comment != "rangeindex" {
						continue
					}
					n++
					if n != want {
						continue
					}
					if c, ok := st.cellOf[a]; ok {
						v, ok := st.cells[c]
						if !ok {
							v = ex.u.zeroOf(c.typ)
						}
						return tv{T: v, Ty: c.typ}, true
					}
					return tv{}, false
				}
			}
			return tv{}, false
		}
		// latest cell with that source name in this function
		var best *Cell
		for a, c := range st.cellOf {
			if a.Parent() == fc.fn && a.Comment == name {
				if best == nil || c.id > best.id {
					best = c
				}
			}
		}
		if best != nil {
			v, ok := st.cells[best]
			if !ok {
				v = ex.u.zeroOf(best.typ)
			}
			return tv{T: v, Ty: best.typ}, true
		}
		// heap-allocated local (escaping): read its cell
		for _, b := range fc.fn.Blocks {
			for _, in := range b.Instrs {
				if a, ok := in.(*ssa.Alloc); ok && a.Comment == name {
					if pv, ok := st.env[a]; ok {
						if p, ok := pv.(*Ptr); ok {
							return tv{T: ex.loadH(st, st.heap, p), Ty: p.Obj}, true
						}
					}
				}
			}
		}
		if v, ok := fc.names[name]; ok {
			return v, true
		}
		return tv{}, false
	}
	return env
}

func fnPkg(fn *ssa.Function) *types.Package {
	for fn.Parent() != nil {
		fn = fn.Parent()
	}
	if fn.Pkg != nil {
		return fn.Pkg.Pkg
	}
	if fn.Object() != nil {
		return fn.Object().Pkg()
	}
	if o := fn.Origin(); o != nil && o.Pkg != nil {
		return o.Pkg.Pkg
	}
	return nil
}

// assumeUses assumes instances of named axioms / lemmas (`use name(args)`).
// Only applications of macros declared `axiom` or `lemma` are accepted.
func (ex *Exec) assumeUses(st *State, env *SpecEnv, uses []*Clause) {
	for _, cl := range uses {
		name := cl.Text
		if i := strings.Index(name, "("); i > 0 {
			name = strings.TrimSpace(name[:i])
		}
		m, ok := ex.cs.Macros[name]
		if name == "forall" {
			// a universally quantified instance: forall(x, Sort, axiomName(...))
			ok = false
			for an, am := range ex.cs.Macros {
				if (am.Kind == "axiom" || am.Kind == "lemma") && strings.Contains(cl.Text, ", "+an+"(") && strings.HasSuffix(strings.TrimSpace(cl.Text), "))") {
					m, ok, name = am, true, an
				}
			}
		}
		if !ok || (m.Kind != "axiom" && m.Kind != "lemma") {
			ex.specError(cl, fmt.Errorf("use: %s is not a declared axiom or lemma", name))
			continue
		}
		t, err := env.evalBool(cl.Text)
		if err != nil {
			ex.specError(cl, err)
			continue
		}
		ex.usedAxioms[m.Kind+":"+name] = true
		st.assume(t)
	}
}

// tryDiamond: if-conversion of `if c { T }` where T is a single straight-line
// block that rejoins the other successor. The conditional block is executed
// under c and the two states are merged with ite, which keeps sequences of
// independent conditionals (default assignments, counters) linear instead of
// exponential in paths. Falls back (returns false, nothing changed) when the
// shape or the states do not allow an exact merge.
func (ex *Exec) tryDiamond(st *State, fc *FnCtx, b *ssa.BasicBlock, c Term) bool {
	if ex.ct != nil && ex.ct.NoMerge {
		return false
	}
	var T, J *ssa.BasicBlock
	cond := c
	s0, s1 := b.Succs[0], b.Succs[1]
	switch {
	case len(s0.Succs) == 1 && s0.Succs[0] == s1 && len(s0.Preds) == 1:
		T, J = s0, s1
	case len(s1.Succs) == 1 && s1.Succs[0] == s0 && len(s1.Preds) == 1:
		T, J = s1, s0
		cond = not(c)
	default:
		return false
	}
	if _, isLoop := fc.loops[T]; isLoop {
		return false
	}
	if _, isLoop := fc.loops[J]; isLoop {
		return false
	}
	for _, in := range T.Instrs {
		switch in.(type) {
		case *ssa.If, *ssa.Return, *ssa.Panic, *ssa.RunDefers, *ssa.Defer, *ssa.Go, *ssa.Select, *ssa.Next, *ssa.Range:
			return false
		}
	}
	base := len(st.log)
	a := st.clone()
	a.assume(cond)
	goalsBefore := len(ex.goals)
	pathsBefore := ex.paths
	var ends []*State
	// run T's instructions; the continuation of the final Jump is intercepted
	sub := *fc
	prevStop, prevEnds := ex.diamondStop, ex.diamondEnds
	ex.diamondStop = J
	ex.diamondEnds = &ends
	func() {
		defer func() { ex.diamondStop, ex.diamondEnds = prevStop, prevEnds }()
		ex.runInstrs(a, &sub, T, 0, b)
	}()
	ok := len(ends) == 1
	var A *State
	if ok {
		A = ends[0]
		ok = A.heap.epoch == st.heap.epoch && len(A.defers) == len(st.defers) && len(A.open) == len(st.open) && !A.pendingAll && len(A.pendingBound) == 0 && len(st.pendingBound) == 0
	}
	if !ok && os.Getenv("GVC_DEBUG_MERGE") != "" {
		fmt.Fprintf(os.Stderr, "merge fallback at b%d in %s: ends=%d\n", b.Index, fc.fn.Name(), len(ends))
		if len(ends) == 1 {
			A := ends[0]
			fmt.Fprintf(os.Stderr, "   epoch %d/%d defers %d/%d open %d/%d pendingAll=%v pend %d/%d\n", A.heap.epoch, st.heap.epoch, len(A.defers), len(st.defers), len(A.open), len(st.open), A.pendingAll, len(A.pendingBound), len(st.pendingBound))
		}
	}
	if !ok {
		// undo: discard goals and path counts produced by the trial
		ex.goals = ex.goals[:goalsBefore]
		ex.paths = pathsBefore
		return false
	}
	m := st.clone()
	// extra log lines of the conditional branch, guarded
	for _, l := range A.log[base:] {
		if strings.HasPrefix(l, "(assert ") {
			body := l[len("(assert ") : len(l)-1]
			m.log = append(m.log, "(assert (=> "+cond.S+" "+body+"))")
		} else {
			m.log = append(m.log, l)
		}
	}
	for k, v := range A.env {
		if _, have := m.env[k]; !have {
			m.env[k] = v
		}
	}
	for k, v := range A.cellOf {
		m.cellOf[k] = v
	}
	for cell, av := range A.cells {
		bv, have := st.cells[cell]
		if !have {
			m.cells[cell] = av
			continue
		}
		if av.S != bv.S {
			m.cells[cell] = ex.define(m, "mg", ite(cond, av, bv))
		}
	}
	for name, av := range A.heap.m {
		bv, have := st.heap.m[name]
		if !have {
			_, vs, _ := arrayParts(av.So)
			bv = ex.comp(st.heap, name, vs)
			delete(st.heap.m, name)
		}
		if av.S != bv.S {
			m.heap.m[name] = ex.define(m, "mh", ite(cond, av, bv))
		} else {
			m.heap.m[name] = av
		}
	}
	if A.alloc.S != st.alloc.S {
		m.alloc = ex.define(m, "ma", ite(cond, A.alloc, st.alloc))
	}
	if A.heapBound.S != st.heapBound.S {
		m.heapBound = ex.define(m, "mb", ite(cond, A.heapBound, st.heapBound))
	}
	for k, av := range A.compBound {
		bv, have := st.compBound[k]
		if !have {
			bv = st.baseAlloc
			if st.havocEpochBound.S != "" {
				bv = st.havocEpochBound
			}
		}
		if bv.S == "" || av.S == bv.S {
			m.compBound[k] = av
		} else {
			m.compBound[k] = ex.define(m, "mc", ite(cond, av, bv))
		}
	}
	for k := range m.nonnil {
		if !A.nonnil[k] {
			delete(m.nonnil, k)
		}
	}
	for k := range m.unfolded {
		if !A.unfolded[k] {
			delete(m.unfolded, k)
		}
	}
	for k, av := range A.visited {
		if bv, have := st.visited[k]; have && av.S != bv.S {
			m.visited[k] = ex.define(m, "mv", ite(cond, av, bv))
		}
	}
	// phis of the join block: select by the branch condition
	for _, in := range J.Instrs {
		phi, ok := in.(*ssa.Phi)
		if !ok {
			continue
		}
		var vT, vB Val
		for i, p := range J.Preds {
			if p == T {
				vT = ex.val(A, phi.Edges[i])
			} else if p == b {
				vB = ex.val(st, phi.Edges[i])
			}
		}
		tT, okT := vT.(Term)
		tB, okB := vB.(Term)
		if !okT || !okB {
			ex.goals = ex.goals[:goalsBefore]
			ex.paths = pathsBefore
			return false
		}
		if m.phiOverride == nil {
			m.phiOverride = map[*ssa.Phi]Val{}
		}
		m.phiOverride[phi] = ex.define(m, "phi", ite(cond, tT, tB))
	}
	m.localMaps = A.localMaps
	m.pathTag = append(m.pathTag, fmt.Sprintf("b%d*", b.Index))
	ex.merged++
	ex.runBlock(m, fc, J, b)
	return true
}

// globMatch: '*' matches any run of characters (including '/').
func globMatch(pat, s string) bool {
	parts := strings.Split(pat, "*")
	for i := range parts {
		parts[i] = regexp.QuoteMeta(parts[i])
	}
	re, err := regexp.Compile("^" + strings.Join(parts, ".*") + "$")
	return err == nil && re.MatchString(s)
}
