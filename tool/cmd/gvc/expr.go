package main

// Contract expressions: Go expression syntax plus ==>, <==>, old(), forall(),
// exists(), typeis(), ghost accessors and spec functions, translated to SMT
// terms against a heap view.

import (
	"fmt"
	"go/ast"
	"go/constant"
	"go/parser"
	"go/token"
	"go/types"
	"math/big"
	"strconv"
	"strings"
)

type tv struct {
	T     Term
	Ty    types.Type // nil for spec-sorted values
	Const *big.Int   // untyped integer constant
	IsNil bool
	P     *Ptr // address (for locals of pointer type kept as Ptr)
}

type SpecEnv struct {
	ex       *Exec
	st       *State
	heap     *HeapView
	old      *HeapView
	names    map[string]tv
	oldNames map[string]tv
	locals   func(name string) (tv, bool)
	pkg      *types.Package
	bound    map[string]tv
	alloc    Term
	oldAlloc Term
	// locals visible under old(): only for contracts applied at a call site
	// (the caller's private locals are not changed by the call)
	oldLocals func(name string) (tv, bool)
}

type specErr struct{ msg string }

func (e specErr) Error() string { return e.msg }

func sfail(format string, args ...interface{}) {
	panic(specErr{fmt.Sprintf(format, args...)})
}

// rewriteImplies turns `a ==> b` into implies__(a, b) and `a <==> b` into iff__(a, b).
func rewriteImplies(s string) string {
	var segs []string
	var cur []string // parts of the current segment split at ==>
	var ops []string
	var b strings.Builder
	flushPart := func() {
		cur = append(cur, b.String())
		b.Reset()
	}
	flushSeg := func() {
		flushPart()
		// fold right
		acc := cur[len(cur)-1]
		for i := len(cur) - 2; i >= 0; i-- {
			fn := "implies__"
			if ops[i] == "<==>" {
				fn = "iff__"
			}
			acc = fn + "(" + cur[i] + ", " + acc + ")"
		}
		segs = append(segs, acc)
		cur = nil
		ops = nil
	}
	i := 0
	for i < len(s) {
		c := s[i]
		switch {
		case c == '"':
			j := i + 1
			for j < len(s) && s[j] != '"' {
				if s[j] == '\\' {
					j++
				}
				j++
			}
			b.WriteString(s[i:min(j+1, len(s))])
			i = j + 1
		case c == '(' || c == '[':
			closer := byte(')')
			if c == '[' {
				closer = ']'
			}
			depth := 0
			j := i
			for ; j < len(s); j++ {
				if s[j] == c {
					depth++
				} else if s[j] == closer {
					depth--
					if depth == 0 {
						break
					}
				}
			}
			if j >= len(s) {
				sfail("unbalanced %c in %q", c, s)
			}
			b.WriteByte(c)
			b.WriteString(rewriteImplies(s[i+1 : j]))
			b.WriteByte(closer)
			i = j + 1
		case c == ',':
			flushSeg()
			i++
		case strings.HasPrefix(s[i:], "<==>"):
			flushPart()
			ops = append(ops, "<==>")
			i += 4
		case strings.HasPrefix(s[i:], "==>"):
			flushPart()
			ops = append(ops, "==>")
			i += 3
		default:
			b.WriteByte(c)
			i++
		}
	}
	flushSeg()
	return strings.Join(segs, ",")
}

func parseSpec(text string) ast.Expr {
	r := rewriteImplies(text)
	e, err := parser.ParseExpr(r)
	if err != nil {
		sfail("cannot parse %q: %v", text, err)
	}
	return e
}

// evalBool translates a boolean contract expression.
func (env *SpecEnv) evalBool(text string) (t Term, err error) {
	defer func() {
		if r := recover(); r != nil {
			if se, ok := r.(specErr); ok {
				err = fmt.Errorf("%s (in %q)", se.msg, text)
				return
			}
			panic(r)
		}
	}()
	e := parseSpec(text)
	v := env.eval(e)
	if v.T.So != sBool {
		sfail("not boolean: sort %s", v.T.So)
	}
	return v.T, nil
}

func (env *SpecEnv) evalTerm(text string) (t tv, err error) {
	defer func() {
		if r := recover(); r != nil {
			if se, ok := r.(specErr); ok {
				err = fmt.Errorf("%s (in %q)", se.msg, text)
				return
			}
			panic(r)
		}
	}()
	e := parseSpec(text)
	v := env.eval(e)
	return v, nil
}

func (env *SpecEnv) withOld() *SpecEnv {
	n := *env
	if env.old != nil {
		n.heap = env.old
	}
	if env.oldNames != nil {
		n.names = env.oldNames
	}
	if env.oldAlloc.S != "" {
		n.alloc = env.oldAlloc
	}
	n.locals = env.oldLocals
	return &n
}

func (env *SpecEnv) resolveType(e ast.Expr) types.Type {
	switch x := e.(type) {
	case *ast.Ident:
		if obj := types.Universe.Lookup(x.Name); obj != nil {
			if tn, ok := obj.(*types.TypeName); ok {
				return tn.Type()
			}
		}
		if env.pkg != nil {
			if obj := env.pkg.Scope().Lookup(x.Name); obj != nil {
				if tn, ok := obj.(*types.TypeName); ok {
					return tn.Type()
				}
			}
		}
	case *ast.SelectorExpr:
		if id, ok := x.X.(*ast.Ident); ok {
			if p := env.findImport(id.Name); p != nil {
				if obj := p.Scope().Lookup(x.Sel.Name); obj != nil {
					if tn, ok := obj.(*types.TypeName); ok {
						return tn.Type()
					}
				}
			}
		}
	case *ast.StarExpr:
		if t := env.resolveType(x.X); t != nil {
			return types.NewPointer(t)
		}
	case *ast.ParenExpr:
		return env.resolveType(x.X)
	case *ast.ArrayType:
		if x.Len == nil {
			if t := env.resolveType(x.Elt); t != nil {
				return types.NewSlice(t)
			}
		}
	}
	return nil
}

func (env *SpecEnv) findImport(name string) *types.Package {
	if env.pkg == nil {
		return nil
	}
	if env.pkg.Name() == name {
		return env.pkg
	}
	for _, p := range env.pkg.Imports() {
		if p.Name() == name {
			return p
		}
	}
	// search whole program as a fallback (e.g. external contracts)
	if env.ex != nil && env.ex.prog != nil {
		if p := env.ex.prog.pkgByName(name); p != nil {
			return p
		}
	}
	return nil
}

var pseudoInts = map[string]int{"int128": 128, "uint128": 128, "int72": 72}

func (env *SpecEnv) constObj(obj types.Object) (tv, bool) {
	if c, ok := obj.(*types.Const); ok {
		t := c.Type()
		if b, ok := t.(*types.Basic); ok && b.Info()&types.IsUntyped != 0 {
			if b.Info()&types.IsInteger != 0 || b.Kind() == types.UntypedRune {
				bi, _ := new(big.Int).SetString(constant.ToInt(c.Val()).ExactString(), 10)
				return tv{Const: bi}, true
			}
			t = types.Default(t)
		}
		return tv{T: env.ex.u.constTerm(c.Val(), t), Ty: t}, true
	}
	return tv{}, false
}

func (env *SpecEnv) ident(name string) tv {
	if v, ok := env.bound[name]; ok {
		return v
	}
	if v, ok := env.names[name]; ok {
		return v
	}
	if env.locals != nil {
		if v, ok := env.locals(name); ok {
			return v
		}
	}
	switch name {
	case "true":
		return tv{T: tTrue, Ty: types.Typ[types.Bool]}
	case "false":
		return tv{T: tFalse, Ty: types.Typ[types.Bool]}
	case "nil":
		return tv{IsNil: true}
	}
	if env.pkg != nil {
		if obj := env.pkg.Scope().Lookup(name); obj != nil {
			if v, ok := env.constObj(obj); ok {
				return v
			}
			if gv, ok := obj.(*types.Var); ok {
				if cv, ok := env.ex.constGlobal(gv); ok {
					return tv{T: cv, Ty: gv.Type()}
				}
				// package-level variable: read its cell
				g := env.ex.prog.globalRef(env.ex, gv)
				p := &Ptr{Ref: g, Obj: gv.Type()}
				return tv{T: env.ex.loadH(env.st, env.heap, p), Ty: gv.Type()}
			}
		}
	}
	// zero-ary spec function / constant
	if sf, ok := env.ex.prog.spec.funcs[name]; ok && len(sf.args) == 0 {
		return tv{T: Term{name, sf.ret}}
	}
	sfail("unknown identifier %s", name)
	return tv{}
}

// coerce makes an untyped constant / nil match the other operand.
func (env *SpecEnv) coerce(a tv, like tv) tv {
	if a.Const != nil {
		so := like.T.So
		if like.Const != nil {
			return tv{T: bvLit(64, a.Const), Ty: types.Typ[types.Int]}
		}
		if n, ok := isBV(so); ok {
			return tv{T: bvLit(n, a.Const), Ty: like.Ty}
		}
		if so == sInt {
			return tv{T: intLit(a.Const.Int64()), Ty: like.Ty}
		}
		sfail("cannot use integer constant as %s", so)
	}
	if a.IsNil {
		switch like.T.So {
		case sInt:
			return tv{T: tNull, Ty: like.Ty}
		case sSlice:
			return tv{T: nilSlice, Ty: like.Ty}
		case sIface:
			return tv{T: nilIface, Ty: like.Ty}
		}
		sfail("nil compared with sort %s", like.T.So)
	}
	return a
}

func (env *SpecEnv) needTerm(a tv) tv {
	if a.Const != nil {
		return tv{T: bvLit(64, a.Const), Ty: types.Typ[types.Int]}
	}
	if a.IsNil {
		sfail("nil in value position")
	}
	return a
}

func (env *SpecEnv) eval(e ast.Expr) tv {
	ex := env.ex
	switch x := e.(type) {
	case *ast.ParenExpr:
		return env.eval(x.X)
	case *ast.BasicLit:
		switch x.Kind {
		case token.INT:
			bi, ok := new(big.Int).SetString(x.Value, 0)
			if !ok {
				sfail("bad int literal %s", x.Value)
			}
			return tv{Const: bi}
		case token.STRING:
			s, _ := strconv.Unquote(x.Value)
			return tv{T: ex.u.strLit(s), Ty: types.Typ[types.String]}
		case token.CHAR:
			s, _, _, _ := strconv.UnquoteChar(x.Value[1:len(x.Value)-1], '\'')
			return tv{Const: big.NewInt(int64(s))}
		}
		sfail("unsupported literal %s", x.Value)
	case *ast.Ident:
		return env.ident(x.Name)
	case *ast.UnaryExpr:
		a := env.eval(x.X)
		switch x.Op {
		case token.NOT:
			return tv{T: not(a.T), Ty: a.Ty}
		case token.SUB:
			if a.Const != nil {
				return tv{Const: new(big.Int).Neg(a.Const)}
			}
			if a.T.So == sInt {
				return tv{T: mk(sInt, "-", a.T), Ty: a.Ty}
			}
			return tv{T: mk(a.T.So, "bvneg", a.T), Ty: a.Ty}
		case token.XOR:
			return tv{T: mk(a.T.So, "bvnot", a.T), Ty: a.Ty}
		}
		sfail("unsupported unary %s", x.Op)
	case *ast.StarExpr:
		a := env.eval(x.X)
		if a.P != nil {
			pt := a.P
			return tv{T: ex.loadH(env.st, env.heap, pt), Ty: derefType(a.Ty)}
		}
		pt, ok := a.Ty.Underlying().(*types.Pointer)
		if !ok {
			sfail("deref of non-pointer")
		}
		p := &Ptr{Ref: a.T, Obj: pt.Elem()}
		return tv{T: ex.loadH(env.st, env.heap, p), Ty: pt.Elem()}
	case *ast.BinaryExpr:
		return env.binary(x)
	case *ast.SelectorExpr:
		// package-qualified constant?
		if id, ok := x.X.(*ast.Ident); ok {
			if _, isName := env.names[id.Name]; !isName {
				if _, isBound := env.bound[id.Name]; !isBound {
					isLocal := false
					if env.locals != nil {
						_, isLocal = env.locals(id.Name)
					}
					if !isLocal {
						if p := env.findImport(id.Name); p != nil && (env.pkg == nil || env.pkg.Scope().Lookup(id.Name) == nil) {
							obj := p.Scope().Lookup(x.Sel.Name)
							if obj == nil {
								sfail("unknown %s.%s", id.Name, x.Sel.Name)
							}
							if v, ok := env.constObj(obj); ok {
								return v
							}
							if gv, ok := obj.(*types.Var); ok {
								if cv, ok := ex.constGlobal(gv); ok {
									return tv{T: cv, Ty: gv.Type()}
								}
								g := ex.prog.globalRef(ex, gv)
								pp := &Ptr{Ref: g, Obj: gv.Type()}
								return tv{T: ex.loadH(env.st, env.heap, pp), Ty: gv.Type()}
							}
							sfail("unsupported package member %s.%s", id.Name, x.Sel.Name)
						}
					}
				}
			}
		}
		a := env.eval(x.X)
		return env.selectField(a, x.Sel.Name)
	case *ast.IndexExpr:
		a := env.eval(x.X)
		i := env.eval(x.Index)
		return env.index(a, i)
	case *ast.TypeAssertExpr:
		a := env.eval(x.X)
		t := env.resolveType(x.Type)
		if t == nil {
			sfail("unknown type in assertion")
		}
		if a.T.So != sIface {
			sfail("type assertion on non-interface")
		}
		if _, isIface := t.Underlying().(*types.Interface); isIface {
			return tv{T: a.T, Ty: t}
		}
		return tv{T: ex.u.unbox(ifacePv(a.T), ex.u.sortOf(t)), Ty: t}
	case *ast.CallExpr:
		return env.call(x)
	}
	sfail("unsupported expression %T", e)
	return tv{}
}

func derefType(t types.Type) types.Type {
	if pt, ok := t.Underlying().(*types.Pointer); ok {
		return pt.Elem()
	}
	return t
}

func (env *SpecEnv) selectField(a tv, name string) tv {
	ex := env.ex
	if a.Ty == nil {
		sfail("field %s of untyped value", name)
	}
	t := a.Ty
	isPtr := false
	if pt, ok := t.Underlying().(*types.Pointer); ok {
		t = pt.Elem()
		isPtr = true
	}
	stt, ok := t.Underlying().(*types.Struct)
	if !ok {
		sfail("field %s of non-struct %s", name, t)
	}
	for i := 0; i < stt.NumFields(); i++ {
		f := stt.Field(i)
		if f.Name() == name {
			if isPtr {
				if a.P != nil {
					return tv{T: ex.loadH(env.st, env.heap, a.P.extend(PathEl{Field: i})), Ty: f.Type()}
				}
				p := &Ptr{Ref: a.T, Obj: t, Path: []PathEl{{Field: i}}}
				return tv{T: ex.loadH(env.st, env.heap, p), Ty: f.Type()}
			}
			return tv{T: ex.u.fieldSel(ex.u.structOf(t), i, a.T), Ty: f.Type()}
		}
	}
	// promoted through embedded fields (one level)
	for i := 0; i < stt.NumFields(); i++ {
		f := stt.Field(i)
		if f.Embedded() {
			inner := env.selectField(a, f.Name())
			if _, ok := derefType(inner.Ty).Underlying().(*types.Struct); ok {
				defer func() { recover() }()
				return env.selectField(inner, name)
			}
		}
	}
	sfail("no field %s in %s", name, t)
	return tv{}
}

func (env *SpecEnv) index(a, i tv) tv {
	ex := env.ex
	if a.Ty == nil {
		// spec-sorted array
		if is, es, ok := arrayParts(a.T.So); ok {
			i = env.coerceSort(i, is)
			return tv{T: mk(es, "select", a.T, i.T)}
		}
		sfail("index of non-array spec value")
	}
	switch tt := a.Ty.Underlying().(type) {
	case *types.Slice:
		i = env.coerceSort(i, sBV64)
		arr := sel(ex.arrComp(env.heap, tt.Elem()), sliceBase(a.T))
		return tv{T: sel(arr, mk(sBV64, "bvadd", sliceOff(a.T), i.T)), Ty: tt.Elem()}
	case *types.Array:
		i = env.coerceSort(i, sBV64)
		return tv{T: sel(a.T, i.T), Ty: tt.Elem()}
	case *types.Pointer:
		if at, ok := tt.Elem().Underlying().(*types.Array); ok {
			i = env.coerceSort(i, sBV64)
			p := &Ptr{Ref: a.T, Obj: tt.Elem(), Path: []PathEl{{Idx: &i.T}}}
			if a.P != nil {
				p = a.P.extend(PathEl{Idx: &i.T})
			}
			return tv{T: ex.loadH(env.st, env.heap, p), Ty: at.Elem()}
		}
	case *types.Map:
		ks, vs := ex.u.sortOf(tt.Key()), ex.u.sortOf(tt.Elem())
		i = env.coerceSort(i, ks)
		_ = vs
		mv := sel(ex.mapVComp(env.heap, tt.Key(), tt.Elem()), a.T)
		return tv{T: sel(mv, i.T), Ty: tt.Elem()}
	case *types.Basic:
		if tt.Kind() == types.String {
			i = env.coerceSort(i, sBV64)
			return tv{T: mk(sBV8, "str.at_", a.T, i.T), Ty: types.Typ[types.Uint8]}
		}
	}
	sfail("unsupported index on %s", a.Ty)
	return tv{}
}

func (env *SpecEnv) coerceSort(a tv, so string) tv {
	if a.Const != nil {
		if n, ok := isBV(so); ok {
			return tv{T: bvLit(n, a.Const)}
		}
		if so == sInt {
			return tv{T: intLit(a.Const.Int64())}
		}
		sfail("constant to sort %s", so)
	}
	if a.IsNil {
		switch so {
		case sInt:
			return tv{T: tNull}
		case sSlice:
			return tv{T: nilSlice}
		case sIface:
			return tv{T: nilIface}
		}
	}
	if a.T.So != so {
		sfail("sort mismatch: have %s want %s (term %s)", a.T.So, so, a.T.S)
	}
	return a
}

func (env *SpecEnv) binary(x *ast.BinaryExpr) tv {
	a := env.eval(x.X)
	b := env.eval(x.Y)
	boolT := types.Typ[types.Bool]
	switch x.Op {
	case token.LAND:
		return tv{T: and(a.T, b.T), Ty: boolT}
	case token.LOR:
		return tv{T: or(a.T, b.T), Ty: boolT}
	}
	if a.Const != nil && b.Const != nil {
		r := new(big.Int)
		switch x.Op {
		case token.ADD:
			return tv{Const: r.Add(a.Const, b.Const)}
		case token.SUB:
			return tv{Const: r.Sub(a.Const, b.Const)}
		case token.MUL:
			return tv{Const: r.Mul(a.Const, b.Const)}
		case token.SHL:
			return tv{Const: r.Lsh(a.Const, uint(b.Const.Int64()))}
		case token.QUO:
			return tv{Const: r.Quo(a.Const, b.Const)}
		case token.EQL:
			return tv{T: boolLit(a.Const.Cmp(b.Const) == 0), Ty: boolT}
		case token.LSS:
			return tv{T: boolLit(a.Const.Cmp(b.Const) < 0), Ty: boolT}
		case token.LEQ:
			return tv{T: boolLit(a.Const.Cmp(b.Const) <= 0), Ty: boolT}
		}
		sfail("unsupported constant op %s", x.Op)
	}
	if x.Op == token.SHL || x.Op == token.SHR {
		a = env.needTerm(a)
		n, ok := isBV(a.T.So)
		if !ok {
			sfail("shift of non-bitvector")
		}
		var cnt Term
		if b.Const != nil {
			cnt = bvLit(n, b.Const)
		} else {
			cnt = resize(b.T, n, false)
		}
		op := "bvshl"
		if x.Op == token.SHR {
			op = "bvlshr"
			if a.Ty == nil || isSigned(a.Ty) {
				op = "bvashr"
			}
		}
		return tv{T: mk(a.T.So, op, a.T, cnt), Ty: a.Ty}
	}
	a2 := env.coerce(a, b)
	b2 := env.coerce(b, a2)
	a, b = a2, b2
	if a.T.So != b.T.So {
		sfail("operand sorts differ: %s vs %s in %s %s %s", a.T.So, b.T.So, a.T.S, x.Op, b.T.S)
	}
	ty := a.Ty
	if ty == nil {
		ty = b.Ty
	}
	signed := ty == nil || isSigned(ty)
	so := a.T.So
	_, bv := isBV(so)
	switch x.Op {
	case token.EQL:
		return tv{T: env.equal(a, b), Ty: boolT}
	case token.NEQ:
		return tv{T: not(env.equal(a, b)), Ty: boolT}
	case token.LSS, token.LEQ, token.GTR, token.GEQ:
		var op string
		if bv {
			op = map[token.Token]string{token.LSS: "bvslt", token.LEQ: "bvsle", token.GTR: "bvsgt", token.GEQ: "bvsge"}[x.Op]
			if !signed {
				op = map[token.Token]string{token.LSS: "bvult", token.LEQ: "bvule", token.GTR: "bvugt", token.GEQ: "bvuge"}[x.Op]
			}
		} else if so == sInt {
			op = map[token.Token]string{token.LSS: "<", token.LEQ: "<=", token.GTR: ">", token.GEQ: ">="}[x.Op]
		} else {
			sfail("ordering on sort %s", so)
		}
		return tv{T: mk(sBool, op, a.T, b.T), Ty: boolT}
	case token.ADD, token.SUB, token.MUL, token.AND, token.OR, token.XOR, token.QUO, token.REM:
		if so == sStr && x.Op == token.ADD {
			return tv{T: mk(sStr, "str.cat_", a.T, b.T), Ty: ty}
		}
		var op string
		if bv {
			op = map[token.Token]string{token.ADD: "bvadd", token.SUB: "bvsub", token.MUL: "bvmul", token.AND: "bvand", token.OR: "bvor", token.XOR: "bvxor", token.QUO: "bvsdiv", token.REM: "bvsrem"}[x.Op]
			if !signed && x.Op == token.QUO {
				op = "bvudiv"
			}
			if !signed && x.Op == token.REM {
				op = "bvurem"
			}
		} else if so == sInt {
			op = map[token.Token]string{token.ADD: "+", token.SUB: "-", token.MUL: "*", token.QUO: "div", token.REM: "mod"}[x.Op]
			if op == "" {
				sfail("op %s on Int", x.Op)
			}
		} else {
			sfail("arithmetic on sort %s", so)
		}
		return tv{T: mk(so, op, a.T, b.T), Ty: ty}
	}
	sfail("unsupported binary %s", x.Op)
	return tv{}
}

func (env *SpecEnv) equal(a, b tv) Term {
	if a.T.So == sIface && (b.T.S == nilIface.S || a.T.S == nilIface.S) {
		o := a.T
		if a.T.S == nilIface.S {
			o = b.T
		}
		return eq(ifaceTag(o), intLit(0))
	}
	if a.T.So == sSlice {
		if b.T.S == nilSlice.S {
			return eq(sliceBase(a.T), tNull)
		}
		if a.T.S == nilSlice.S {
			return eq(sliceBase(b.T), tNull)
		}
	}
	if a.Ty != nil && isFloat(a.Ty) {
		return fpEq(a.T, b.T)
	}
	return eq(a.T, b.T)
}

func fpOf(t Term) string {
	if t.So == sBV64 {
		return "((_ to_fp 11 53) " + t.S + ")"
	}
	return "((_ to_fp 8 24) " + t.S + ")"
}

func fpEq(a, b Term) Term {
	return Term{"(fp.eq " + fpOf(a) + " " + fpOf(b) + ")", sBool}
}

// resize converts a bit-vector to width n.
func resize(t Term, n int, signed bool) Term {
	m, ok := isBV(t.So)
	if !ok {
		panic("resize of non-bv " + t.So)
	}
	switch {
	case m == n:
		return t
	case m > n:
		return Term{fmt.Sprintf("((_ extract %d 0) %s)", n-1, t.S), bvSort(n)}
	case signed:
		return Term{fmt.Sprintf("((_ sign_extend %d) %s)", n-m, t.S), bvSort(n)}
	default:
		return Term{fmt.Sprintf("((_ zero_extend %d) %s)", n-m, t.S), bvSort(n)}
	}
}

func (env *SpecEnv) call(x *ast.CallExpr) tv {
	ex := env.ex
	boolT := types.Typ[types.Bool]
	// conversion?
	if id, ok := x.Fun.(*ast.Ident); ok {
		if w, ok := pseudoInts[id.Name]; ok && len(x.Args) == 1 {
			a := env.eval(x.Args[0])
			if a.Const != nil {
				return tv{T: bvLit(w, a.Const)}
			}
			signed := a.Ty == nil || isSigned(a.Ty)
			if strings.HasPrefix(id.Name, "uint") {
				signed = a.Ty != nil && isSigned(a.Ty)
			}
			return tv{T: resize(a.T, w, signed)}
		}
	}
	if t := env.resolveType(x.Fun); t != nil && len(x.Args) == 1 {
		a := env.eval(x.Args[0])
		so := ex.u.sortOf(t)
		if a.Const != nil {
			if n, ok := isBV(so); ok {
				return tv{T: bvLit(n, a.Const), Ty: t}
			}
			sfail("constant conversion to %s", so)
		}
		if a.IsNil {
			return env.coerce(a, tv{T: Term{"", so}, Ty: t})
		}
		if n, ok := isBV(so); ok {
			if _, ok2 := isBV(a.T.So); ok2 {
				return tv{T: resize(a.T, n, a.Ty == nil || isSigned(a.Ty)), Ty: t}
			}
		}
		if a.T.So == so {
			return tv{T: a.T, Ty: t}
		}
		sfail("unsupported conversion %s -> %s", a.T.So, so)
	}
	name := ""
	switch f := x.Fun.(type) {
	case *ast.Ident:
		name = f.Name
	case *ast.SelectorExpr:
		// method-style spec call: recv.name(args) == name(recv, args)
		name = f.Sel.Name
		args := append([]ast.Expr{f.X}, x.Args...)
		return env.specCall(name, args)
	default:
		sfail("unsupported call")
	}
	switch name {
	case "implies__":
		a, b := env.eval(x.Args[0]), env.eval(x.Args[1])
		return tv{T: implies(a.T, b.T), Ty: boolT}
	case "iff__":
		a, b := env.eval(x.Args[0]), env.eval(x.Args[1])
		return tv{T: eq(a.T, b.T), Ty: boolT}
	case "old":
		return env.withOld().eval(x.Args[0])
	case "len", "cap":
		a := env.eval(x.Args[0])
		switch a.T.So {
		case sSlice:
			if name == "cap" {
				return tv{T: sliceCap(a.T), Ty: types.Typ[types.Int]}
			}
			return tv{T: sliceLen(a.T), Ty: types.Typ[types.Int]}
		case sStr:
			return tv{T: mk(sBV64, "str.len_", a.T), Ty: types.Typ[types.Int]}
		case sInt:
			if a.Ty != nil {
				if _, ok := a.Ty.Underlying().(*types.Map); ok {
					return tv{T: ite(eq(a.T, tNull), bv64(0), sel(ex.mapLComp(env.heap), a.T)), Ty: types.Typ[types.Int]}
				}
			}
		}
		if a.Ty != nil {
			if at, ok := a.Ty.Underlying().(*types.Array); ok {
				return tv{Const: big.NewInt(at.Len())}
			}
		}
		sfail("len of %s", a.T.So)
	case "forall", "exists":
		// forall(k, lo, hi, body)  or forall(k, Sort, body)
		id, ok := x.Args[0].(*ast.Ident)
		if !ok {
			sfail("%s: first argument must be an identifier", name)
		}
		n := *env
		n.bound = map[string]tv{}
		for k, v := range env.bound {
			n.bound[k] = v
		}
		ex.counter++
		bn := fmt.Sprintf("%s_q%d", id.Name, ex.counter)
		var guard Term = tTrue
		var so string
		var body ast.Expr
		if len(x.Args) == 4 {
			so = sBV64
			bvv := tv{T: Term{bn, so}, Ty: types.Typ[types.Int]}
			n.bound[id.Name] = bvv
			lo := env.coerceSort(env.eval(x.Args[1]), so)
			hi := env.coerceSort(env.eval(x.Args[2]), so)
			guard = and(mk(sBool, "bvsle", lo.T, bvv.T), mk(sBool, "bvslt", bvv.T, hi.T))
			body = x.Args[3]
		} else if len(x.Args) == 3 {
			so = env.sortName(x.Args[1])
			var ty types.Type
			if t := env.resolveType(x.Args[1]); t != nil {
				ty = t
			}
			n.bound[id.Name] = tv{T: Term{bn, so}, Ty: ty}
			body = x.Args[2]
		} else {
			sfail("%s: wrong arity", name)
		}
		bt := n.eval(body)
		q := "forall"
		inner := implies(guard, bt.T)
		if name == "exists" {
			q = "exists"
			inner = and(guard, bt.T)
		}
		if q == "forall" {
			return tv{T: buildForall([]string{bn}, []string{so}, guard, bt.T), Ty: boolT}
		}
		return tv{T: Term{fmt.Sprintf("(%s ((%s %s)) %s)", q, bn, so, inner.S), sBool}, Ty: boolT}
	case "fpeq": // fpeq(a, b): IEEE equality of two float64 values given as bit patterns (or float-typed terms)
		a := env.needTerm(env.eval(x.Args[0]))
		b := env.needTerm(env.eval(x.Args[1]))
		return tv{T: fpEq(a.T, b.T), Ty: boolT}
	case "ufun": // ufun(name, ResultType, args...): an uninterpreted function of the arguments with a Go-typed result
		id, ok := x.Args[0].(*ast.Ident)
		if !ok || len(x.Args) < 3 {
			sfail("ufun(name, Type, args...)")
		}
		rt := env.resolveType(x.Args[1])
		if rt == nil {
			sfail("ufun: unknown result type")
		}
		var args []Term
		for _, a := range x.Args[2:] {
			args = append(args, env.needTerm(env.eval(a)).T)
		}
		return tv{T: ex.uninterp(env.st, "uf_"+id.Name, ex.u.sortOf(rt), args...), Ty: rt}
	case "eqsym": // eqsym(id, a, b): the structural-equality relation named id (uninterpreted; unfolded by its definitional axiom)
		id, ok := x.Args[0].(*ast.Ident)
		if !ok || len(x.Args) != 3 {
			sfail("eqsym(id, a, b)")
		}
		a := env.needTerm(env.eval(x.Args[1]))
		b := env.needTerm(env.eval(x.Args[2]))
		if a.IsNil || b.IsNil {
			sfail("eqsym: untyped nil argument")
		}
		return tv{T: ex.uninterp(env.st, "eq_"+id.Name, sBool, a.T, b.T), Ty: boolT}
	case "forallkey", "existskey": // forallkey(k, m, body): k ranges over the key type of map m
		id, ok := x.Args[0].(*ast.Ident)
		if !ok || len(x.Args) != 3 {
			sfail("%s(k, m, body)", name)
		}
		m := env.eval(x.Args[1])
		mt, ok := m.Ty.Underlying().(*types.Map)
		if !ok {
			sfail("%s: not a map", name)
		}
		n := *env
		n.bound = map[string]tv{}
		for k, v := range env.bound {
			n.bound[k] = v
		}
		ex.counter++
		bn := fmt.Sprintf("%s_q%d", id.Name, ex.counter)
		so := ex.u.sortOf(mt.Key())
		n.bound[id.Name] = tv{T: Term{bn, so}, Ty: mt.Key()}
		bt := n.eval(x.Args[2])
		if name == "forallkey" {
			return tv{T: buildForall([]string{bn}, []string{so}, tTrue, bt.T), Ty: boolT}
		}
		return tv{T: Term{fmt.Sprintf("(exists ((%s %s)) %s)", bn, so, bt.T.S), sBool}, Ty: boolT}
	case "typeis":
		a := env.eval(x.Args[0])
		t := env.resolveType(x.Args[1])
		if t == nil {
			sfail("typeis: unknown type")
		}
		return tv{T: eq(ifaceTag(a.T), intLit(int64(ex.u.tagOf(t)))), Ty: boolT}
	case "ite":
		c := env.eval(x.Args[0])
		a, b := env.eval(x.Args[1]), env.eval(x.Args[2])
		a2 := env.coerce(a, b)
		b2 := env.coerce(b, a2)
		return tv{T: ite(c.T, a2.T, b2.T), Ty: a2.Ty}
	case "has": // has(m, k): map presence
		m := env.eval(x.Args[0])
		mt, ok := m.Ty.Underlying().(*types.Map)
		if !ok {
			sfail("has: not a map")
		}
		ks := ex.u.sortOf(mt.Key())
		k := env.coerceSort(env.eval(x.Args[1]), ks)
		mp := sel(ex.mapPComp(env.heap, mt.Key(), mt.Elem()), m.T)
		// a nil map has no keys
		return tv{T: and(not(eq(m.T, tNull)), sel(mp, k.T)), Ty: boolT}
	case "fresh": // fresh(p): allocated during the call
		a := env.eval(x.Args[0])
		r := a.T
		if a.T.So == sSlice {
			r = sliceBase(a.T)
		} else if a.T.So == sIface {
			r = ifacePv(a.T)
		}
		return tv{T: mk(sBool, "<", env.oldAlloc, r), Ty: boolT}
	case "allocated": // allocated(p): the reference exists in the current state
		a := env.eval(x.Args[0])
		r := a.T
		if a.T.So == sSlice {
			r = sliceBase(a.T)
		} else if a.T.So == sIface {
			r = ifacePv(a.T)
		}
		return tv{T: mk(sBool, "<=", r, env.alloc), Ty: boolT}
	case "ref": // ref(x): the Int reference of a pointer / interface payload
		a := env.eval(x.Args[0])
		if a.T.So == sIface {
			return tv{T: ifacePv(a.T)}
		}
		if a.T.So == sSlice {
			return tv{T: sliceBase(a.T)}
		}
		return tv{T: a.T}
	case "visited": // visited(k): key k was already yielded by the enclosing map range
		if env.st == nil || env.st.lastRange == nil {
			sfail("visited: no map range in scope")
		}
		vis, ok := env.st.visited[env.st.lastRange]
		if !ok {
			sfail("visited: no map range in scope")
		}
		ks, _, _ := arrayParts(vis.So)
		k := env.coerceSort(env.eval(x.Args[0]), ks)
		return tv{T: sel(vis, k.T), Ty: boolT}
	case "implements": // implements(x, I): the dynamic type of x implements interface type I
		a := env.eval(x.Args[0])
		t := env.resolveType(x.Args[1])
		if t == nil {
			sfail("implements: unknown interface type")
		}
		if _, ok := t.Underlying().(*types.Interface); !ok || a.T.So != sIface {
			sfail("implements: needs an interface value and an interface type")
		}
		return tv{T: ex.implementsPred(env.st, a.T, t), Ty: boolT}
	case "visitedset": // the set of keys already yielded by the enclosing map range, as an array
		if env.st == nil || env.st.lastRange == nil {
			sfail("visitedset: no map range in scope")
		}
		return tv{T: env.st.visited[env.st.lastRange]}
	case "keyset": // keyset(m): the presence array of map m
		m := env.eval(x.Args[0])
		mt, ok := m.Ty.Underlying().(*types.Map)
		if !ok {
			sfail("keyset: not a map")
		}
		pa := sel(ex.mapPComp(env.heap, mt.Key(), mt.Elem()), m.T)
		return tv{T: ite(eq(m.T, tNull), Term{"((as const " + pa.So + ") false)", pa.So}, pa)}
	case "emptyset": // emptyset(Sort)
		so := env.sortName(x.Args[0])
		as := arraySort(so, sBool)
		return tv{T: Term{"((as const " + as + ") false)", as}}
	case "setadd":
		a := env.eval(x.Args[0])
		ks, _, _ := arrayParts(a.T.So)
		k := env.coerceSort(env.eval(x.Args[1]), ks)
		return tv{T: store(a.T, k.T, tTrue)}
	case "substr": // substr(s, lo, hi): the Go slice expression s[lo:hi] on strings
		a := env.eval(x.Args[0])
		lo := env.coerceSort(env.eval(x.Args[1]), sBV64)
		hi := env.coerceSort(env.eval(x.Args[2]), sBV64)
		return tv{T: ex.uninterp(env.st, "substr", sStr, a.T, lo.T, hi.T), Ty: types.Typ[types.String]}
	case "unchanged": // unchanged(T, field): no object's field changed since the old state
		t := env.resolveType(x.Args[0])
		fid, ok := x.Args[1].(*ast.Ident)
		if t == nil || !ok {
			sfail("unchanged(Type, field)")
		}
		if pt, ok := t.Underlying().(*types.Pointer); ok {
			t = pt.Elem()
		}
		stt, ok := t.Underlying().(*types.Struct)
		if !ok || env.old == nil {
			sfail("unchanged: not a struct type or no old state")
		}
		for i := 0; i < stt.NumFields(); i++ {
			if stt.Field(i).Name() == fid.Name {
				si := ex.u.structOf(t)
				c := compFieldT(t, i)
				return tv{T: eq(ex.comp(env.heap, c, si.fields[i]), ex.comp(env.old, c, si.fields[i])), Ty: boolT}
			}
		}
		sfail("unchanged: no field %s", fid.Name)
	case "keptold": // keptold(T, field): every object of type T that existed in the old state still has its old field value
		t := env.resolveType(x.Args[0])
		fid, ok := x.Args[1].(*ast.Ident)
		if t == nil || !ok {
			sfail("keptold(Type, field)")
		}
		if pt, ok := t.Underlying().(*types.Pointer); ok {
			t = pt.Elem()
		}
		stt, ok := t.Underlying().(*types.Struct)
		if !ok || env.old == nil {
			sfail("keptold: not a struct type or no old state")
		}
		for i := 0; i < stt.NumFields(); i++ {
			if stt.Field(i).Name() == fid.Name {
				si := ex.u.structOf(t)
				c := compFieldT(t, i)
				cur, old := ex.comp(env.heap, c, si.fields[i]), ex.comp(env.old, c, si.fields[i])
				if cur.S == old.S {
					return tv{T: tTrue, Ty: boolT}
				}
				ex.counter++
				r := fmt.Sprintf("ko_%d", ex.counter)
				return tv{T: Term{fmt.Sprintf("(forall ((%s Int)) (! (=> (<= %s %s) (= (select %s %s) (select %s %s))) :pattern ((select %s %s))))", r, r, env.oldAlloc.S, cur.S, r, old.S, r, cur.S, r), sBool}, Ty: boolT}
			}
		}
		sfail("keptold: no field %s", fid.Name)
	case "keptoldarr": // keptoldarr(ElemType): every backing array of that element type that existed in the old state is unchanged
		t := env.resolveType(x.Args[0])
		if t == nil || env.old == nil {
			sfail("keptoldarr(ElemType)")
		}
		cur, old := ex.arrComp(env.heap, t), ex.arrComp(env.old, t)
		if cur.S == old.S {
			return tv{T: tTrue, Ty: boolT}
		}
		ex.counter++
		r := fmt.Sprintf("ka_%d", ex.counter)
		return tv{T: Term{fmt.Sprintf("(forall ((%s Int)) (! (=> (<= %s %s) (= (select %s %s) (select %s %s))) :pattern ((select %s %s))))", r, r, env.oldAlloc.S, cur.S, r, old.S, r, cur.S, r), sBool}, Ty: boolT}
	case "arrayof": // arrayof(s): the contents of the backing array of slice s
		a := env.eval(x.Args[0])
		st0, ok := a.Ty.Underlying().(*types.Slice)
		if !ok {
			sfail("arrayof: not a slice")
		}
		return tv{T: sel(ex.arrComp(env.heap, st0.Elem()), sliceBase(a.T))}
	case "soff": // soff(s): offset of slice s in its backing array
		a := env.eval(x.Args[0])
		if a.T.So != sSlice {
			sfail("soff: not a slice")
		}
		return tv{T: sliceOff(a.T), Ty: types.Typ[types.Int]}
	case "bits": // the bit pattern of a value (floats are carried as their IEEE bits)
		a := env.needTerm(env.eval(x.Args[0]))
		return tv{T: a.T}
	case "tag":
		a := env.eval(x.Args[0])
		return tv{T: ifaceTag(a.T)}
	case "ult", "ule":
		a := env.needTerm(env.eval(x.Args[0]))
		b := env.coerce(env.eval(x.Args[1]), a)
		op := "bvult"
		if name == "ule" {
			op = "bvule"
		}
		return tv{T: mk(sBool, op, a.T, b.T), Ty: boolT}
	}
	return env.specCall(name, x.Args)
}

func (env *SpecEnv) sortName(e ast.Expr) string {
	if id, ok := e.(*ast.Ident); ok {
		switch id.Name {
		case "Int":
			return sInt
		case "Ref":
			return sInt
		case "Bool":
			return sBool
		case "Str":
			return sStr
		case "BV64":
			return sBV64
		case "BV8":
			return sBV8
		}
		if _, ok := env.ex.prog.spec.sorts[id.Name]; ok {
			return id.Name
		}
	}
	if t := env.resolveType(e); t != nil {
		return env.ex.u.sortOf(t)
	}
	sfail("unknown sort in quantifier")
	return ""
}

func (env *SpecEnv) specCall(name string, args []ast.Expr) tv {
	ex := env.ex
	// ghost component accessor
	if so, ok := ex.cs.Ghost[name]; ok {
		if len(args) != 1 {
			sfail("ghost %s takes one argument", name)
		}
		a := env.eval(args[0])
		r := a.T
		if a.IsNil {
			r = tNull // process-wide ghost state lives at the nil key
		} else if a.T.So == sIface {
			r = ifacePv(a.T)
		} else if a.T.So == sSlice {
			r = sliceBase(a.T)
		}
		if r.So != sInt {
			sfail("ghost %s on non-reference sort %s", name, r.So)
		}
		return tv{T: sel(ex.comp(env.heap, compGhost(name), so), r)}
	}
	if m, ok := ex.cs.Macros[name]; ok {
		if len(m.Params) != len(args) {
			sfail("macro %s: expected %d arguments", name, len(m.Params))
		}
		n := *env
		n.names = map[string]tv{}
		n.locals = nil
		n.bound = env.bound
		for i, p := range m.Params {
			n.names[p] = env.eval(args[i])
		}
		if m.Pkg != "" {
			if pk := ex.prog.pkgByPath(m.Pkg); pk != nil {
				n.pkg = pk
			}
		}
		// old() inside a macro refers to the caller's old state with the same bindings
		n.oldNames = nil
		if env.old != nil {
			on := map[string]tv{}
			oe := env.withOld()
			for i, p := range m.Params {
				func() {
					defer func() { recover() }()
					on[p] = oe.eval(args[i])
				}()
			}
			n.oldNames = on
		}
		return n.eval(parseSpec(m.Body))
	}
	sf, ok := ex.prog.spec.funcs[name]
	if !ok {
		sfail("unknown function %s", name)
	}
	if len(sf.args) != len(args) {
		sfail("%s: expected %d arguments, got %d", name, len(sf.args), len(args))
	}
	var ts []Term
	for i, ae := range args {
		a := env.eval(ae)
		a = env.coerceSort(a, sf.args[i])
		ts = append(ts, a.T)
	}
	if len(ts) == 0 {
		return tv{T: Term{name, sf.ret}}
	}
	app := mk(sf.ret, name, ts...)
	if sf.body != "" && env.st != nil {
		// ground instance of the defining equation (skipped under binders)
		closed := true
		for _, bv := range env.bound {
			if mentions(app.S, bv.T.S) {
				closed = false
			}
		}
		if env.st.unfolded == nil {
			env.st.unfolded = map[string]bool{}
		}
		if closed && !env.st.unfolded[app.S] {
			env.st.unfolded[app.S] = true
			body := sf.body
			// simultaneous substitution of parameters by argument terms
			ph := make([]string, len(sf.params))
			for i, p := range sf.params {
				ph[i] = fmt.Sprintf("@@%d@@", i)
				body = substToken(body, p, ph[i])
			}
			for i := range sf.params {
				body = strings.ReplaceAll(body, ph[i], ts[i].S)
			}
			env.st.log = append(env.st.log, fmt.Sprintf("(assert (= %s %s))", app.S, body))
		}
	}
	return tv{T: app}
}


// triggerTerms finds array reads indexed by the bound variable: the minimal
// `(select A I)` subterms where I mentions bn and A does not. They are used
// as alternative instantiation patterns.
func triggerTerms(body, bn string) []string {
	var out []string
	seen := map[string]bool{}
	hasVar := func(s string) bool {
		i := 0
		for {
			j := strings.Index(s[i:], bn)
			if j < 0 {
				return false
			}
			j += i
			end := j + len(bn)
			okL := j == 0 || strings.ContainsRune(" ()", rune(s[j-1]))
			okR := end == len(s) || strings.ContainsRune(" ()", rune(s[end]))
			if okL && okR {
				return true
			}
			i = end
		}
	}
	var walk func(s string)
	walk = func(s string) {
		s = strings.TrimSpace(s)
		if !strings.HasPrefix(s, "(") || !hasVar(s) {
			return
		}
		parts := splitSexprs(s[1 : len(s)-1])
		if len(parts) == 3 && parts[0] == "select" && hasVar(parts[2]) && !hasVar(parts[1]) && !strings.Contains(parts[2], "(select ") {
			if !seen[s] && !strings.Contains(s, "forall") && !strings.Contains(s, "(ite ") {
				seen[s] = true
				out = append(out, s)
			}
			return
		}
		if len(parts) > 0 && (parts[0] == "forall" || parts[0] == "exists" || parts[0] == "!") {
			// do not descend into nested binders for patterns of the outer one
			if parts[0] == "!" {
				walk(parts[1])
			}
			return
		}
		for _, p := range parts[1:] {
			walk(p)
		}
	}
	walk(body)
	if len(out) > 4 {
		out = out[:4]
	}
	return out
}


// buildForall builds (forall (vars) (=> guard body)) merging directly nested
// universal quantifiers into one binder with a multi-pattern made of one array
// read per bound variable.
func buildForall(vars, sorts []string, guard, body Term) Term {
	matrix := body.S
	g := guard
	for strings.HasPrefix(matrix, "(forall ((") {
		parts := splitSexprs(matrix[1 : len(matrix)-1])
		if len(parts) != 3 {
			break
		}
		binders := splitSexprs(parts[1][1 : len(parts[1])-1])
		for _, b := range binders {
			bp := splitSexprs(b[1 : len(b)-1])
			vars = append(vars, bp[0])
			sorts = append(sorts, bp[1])
		}
		m := parts[2]
		if strings.HasPrefix(m, "(! ") {
			mp := splitSexprs(m[1 : len(m)-1])
			m = mp[1]
		}
		// m is (=> guard2 body2) or a plain body
		if strings.HasPrefix(m, "(=> ") {
			ip := splitSexprs(m[1 : len(m)-1])
			if len(ip) == 3 {
				g = and(g, Term{ip[1], sBool})
				m = ip[2]
			}
		}
		matrix = m
	}
	var bind strings.Builder
	for i := range vars {
		fmt.Fprintf(&bind, "(%s %s)", vars[i], sorts[i])
	}
	inner := implies(g, Term{matrix, sBool})
	// one trigger term per variable
	var multi []string
	ok := true
	for _, v := range vars {
		ts := triggerTerms(inner.S, v)
		// prefer terms mentioning only this variable
		pick := ""
		for _, t := range ts {
			only := true
			for _, w := range vars {
				if w != v && mentions(t, w) {
					only = false
				}
			}
			if only {
				pick = t
				break
			}
		}
		if pick == "" && len(ts) > 0 {
			pick = ts[0]
		}
		if pick == "" {
			ok = false
			break
		}
		dup := false
		for _, m := range multi {
			if m == pick {
				dup = true
			}
		}
		if !dup {
			multi = append(multi, pick)
		}
	}
	if ok && len(multi) > 0 {
		pats := " :pattern (" + strings.Join(multi, " ") + ")"
		if len(vars) == 1 {
			// alternatives for a single variable
			pats = ""
			for _, t := range triggerTerms(inner.S, vars[0]) {
				pats += " :pattern (" + t + ")"
			}
		}
		return Term{fmt.Sprintf("(forall (%s) (! %s%s))", bind.String(), inner.S, pats), sBool}
	}
	return Term{fmt.Sprintf("(forall (%s) %s)", bind.String(), inner.S), sBool}
}

func mentions(s, v string) bool {
	i := 0
	for {
		j := strings.Index(s[i:], v)
		if j < 0 {
			return false
		}
		j += i
		end := j + len(v)
		okL := j == 0 || strings.ContainsRune(" ()", rune(s[j-1]))
		okR := end == len(s) || strings.ContainsRune(" ()", rune(s[end]))
		if okL && okR {
			return true
		}
		i = end
	}
}


// substToken replaces whole-token occurrences of name in an s-expression text.
func substToken(s, name, with string) string {
	var b strings.Builder
	i := 0
	for i < len(s) {
		j := strings.Index(s[i:], name)
		if j < 0 {
			b.WriteString(s[i:])
			break
		}
		j += i
		end := j + len(name)
		okL := j == 0 || strings.ContainsRune(" ()", rune(s[j-1]))
		okR := end == len(s) || strings.ContainsRune(" ()", rune(s[end]))
		b.WriteString(s[i:j])
		if okL && okR {
			b.WriteString(with)
		} else {
			b.WriteString(name)
		}
		i = end
	}
	return b.String()
}
