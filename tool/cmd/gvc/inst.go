package main

// Generated-code instances (DESIGN §1.9). On every run the generator is built
// from /repo's working tree, the corpus is regenerated into a scratch module
// outside /repo and /verif, and contracts for the emitted decoders are
// synthesised: the kind of each decoder (which wire type it must consume) is
// read off the stream calls it makes, the loop invariants are the schematic
// ones of the protocol's skipEnd/fieldsEnd/listEnd/mapEnd spec functions.

import (
	"bytes"
	"encoding/json"
	"fmt"
	"go/types"
	"os"
	"os/exec"
	"path/filepath"
	"sort"
	"strings"

	"golang.org/x/tools/go/ssa"
)

type InstInfo struct {
	verif   string
	dir     string
	root    string
	pkgs    []string
	schemas []string
	skipped []string
	funcs   int
	// schema facts from /repo's own compile package: package base name -> normalised struct name -> fields
	structs  map[string]map[string][]schemaField
	kinds    map[string]map[string]string
	typedefs map[string]map[string]*tdesc
	enums    map[string]map[string]bool
	presence int
}

type schemaField struct {
	ID       int    `json:"id"`
	Name     string `json:"name"`
	Required bool   `json:"required"`
	Code     int    `json:"code"`
	Default  bool   `json:"default"`
	Redact   bool   `json:"redact"`
	NoLog    bool   `json:"nolog"`
	T        *tdesc `json:"t"`
	Def      *defv  `json:"def"`
	Label    string `json:"label"` // go.label annotation when non-empty, else the Thrift name
}

// defv: a declared default as a literal (K: bool int double string other).
type defv struct {
	K string `json:"k"`
	I int64  `json:"i"`
	B bool   `json:"b"`
	F uint64 `json:"f"`
	S string `json:"s"`
}

// tdesc: a Thrift type with typedefs resolved (K: bool i8 i16 i32 i64 double
// string binary enum struct list set map).
type tdesc struct {
	K    string `json:"k"`
	Name string `json:"name"`
	File string `json:"file"`
	Elem *tdesc `json:"elem"`
	Key  *tdesc `json:"key"`
	Val  *tdesc `json:"val"`
}

type schemaTypedef struct {
	Name string `json:"name"`
	T    *tdesc `json:"t"`
}

type schemaStruct struct {
	Name   string        `json:"name"`
	GoName string        `json:"goname"`
	Kind   string        `json:"kind"`
	Fields []schemaField `json:"fields"`
}

const schemaDumpSrc = `package main

// Dumps the schema facts the instance contracts are derived from, using the
// repository's own compile package (never the generator's templates).

import (
	"encoding/json"
	"math"
	"os"
	"path/filepath"
	"strings"

	"go.uber.org/thriftrw/ast"
	"go.uber.org/thriftrw/compile"
)

type field struct {
	ID       int    ` + "`json:\"id\"`" + `
	Name     string ` + "`json:\"name\"`" + `
	Required bool   ` + "`json:\"required\"`" + `
	Code     int    ` + "`json:\"code\"`" + `
	Default  bool   ` + "`json:\"default\"`" + `
	Redact   bool   ` + "`json:\"redact\"`" + `
	NoLog    bool   ` + "`json:\"nolog\"`" + `
	T        *tdesc ` + "`json:\"t\"`" + `
	Def      *defv  ` + "`json:\"def\"`" + `
	Label    string ` + "`json:\"label\"`" + `
}
type defv struct {
	K string ` + "`json:\"k\"`" + `
	I int64  ` + "`json:\"i\"`" + `
	B bool   ` + "`json:\"b\"`" + `
	F uint64 ` + "`json:\"f\"`" + `
	S string ` + "`json:\"s\"`" + `
}

func defOf(c compile.ConstantValue, t compile.TypeSpec) *defv {
	if c == nil {
		return nil
	}
	rt := compile.RootTypeSpec(t)
	switch x := c.(type) {
	case compile.ConstantBool:
		return &defv{K: "bool", B: bool(x)}
	case compile.ConstantInt:
		if _, ok := rt.(*compile.DoubleSpec); ok {
			return &defv{K: "double", F: math.Float64bits(float64(x))}
		}
		if _, ok := rt.(*compile.BoolSpec); ok {
			return &defv{K: "bool", B: x != 0}
		}
		return &defv{K: "int", I: int64(x)}
	case compile.ConstantDouble:
		return &defv{K: "double", F: math.Float64bits(float64(x))}
	case compile.ConstantString:
		if _, ok := rt.(*compile.StringSpec); ok {
			return &defv{K: "string", S: string(x)}
		}
		return &defv{K: "other"}
	case compile.EnumItemReference:
		return &defv{K: "int", I: int64(x.Item.Value)}
	case compile.ConstReference:
		return defOf(x.Target.Value, t)
	}
	return &defv{K: "other"}
}
type tdesc struct {
	K    string ` + "`json:\"k\"`" + `
	Name string ` + "`json:\"name\"`" + `
	File string ` + "`json:\"file\"`" + `
	Elem *tdesc ` + "`json:\"elem\"`" + `
	Key  *tdesc ` + "`json:\"key\"`" + `
	Val  *tdesc ` + "`json:\"val\"`" + `
}
type tdef struct {
	Name string ` + "`json:\"name\"`" + `
	T    *tdesc ` + "`json:\"t\"`" + `
}

func fbase(f string) string {
	return strings.ReplaceAll(strings.TrimSuffix(filepath.Base(f), ".thrift"), "-", "_")
}

func desc(t compile.TypeSpec) *tdesc {
	t = compile.RootTypeSpec(t)
	switch s := t.(type) {
	case *compile.BoolSpec:
		return &tdesc{K: "bool"}
	case *compile.I8Spec:
		return &tdesc{K: "i8"}
	case *compile.I16Spec:
		return &tdesc{K: "i16"}
	case *compile.I32Spec:
		return &tdesc{K: "i32"}
	case *compile.I64Spec:
		return &tdesc{K: "i64"}
	case *compile.DoubleSpec:
		return &tdesc{K: "double"}
	case *compile.StringSpec:
		return &tdesc{K: "string"}
	case *compile.BinarySpec:
		return &tdesc{K: "binary"}
	case *compile.EnumSpec:
		return &tdesc{K: "enum", Name: s.Name, File: fbase(s.File)}
	case *compile.StructSpec:
		n := s.Annotations["go.name"]
		if n == "" {
			n = s.Name
		}
		return &tdesc{K: "struct", Name: n, File: fbase(s.File)}
	case *compile.ListSpec:
		return &tdesc{K: "list", Elem: desc(s.ValueSpec)}
	case *compile.SetSpec:
		return &tdesc{K: "set", Elem: desc(s.ValueSpec)}
	case *compile.MapSpec:
		return &tdesc{K: "map", Key: desc(s.KeySpec), Val: desc(s.ValueSpec)}
	}
	return &tdesc{K: "?"}
}
type strct struct {
	Name   string  ` + "`json:\"name\"`" + `
	GoName string  ` + "`json:\"goname\"`" + `
	Kind   string  ` + "`json:\"kind\"`" + `
	Fields []field ` + "`json:\"fields\"`" + `
}

func has(a compile.Annotations, k string) bool { _, ok := a[k]; return ok }

func label(fl *compile.FieldSpec) string {
	if v := fl.Annotations["go.label"]; len(v) > 0 {
		return v
	}
	return fl.Name
}

func main() {
	out := map[string][]strct{}
	tds := map[string][]tdef{}
	ens := map[string][]string{}
	seen := map[string]bool{}
	var visit func(m *compile.Module)
	visit = func(m *compile.Module) {
		if seen[m.ThriftPath] {
			return
		}
		seen[m.ThriftPath] = true
		base := strings.TrimSuffix(filepath.Base(m.ThriftPath), ".thrift")
		for _, t := range m.Types {
			if td, ok := t.(*compile.TypedefSpec); ok {
				tds[base] = append(tds[base], tdef{Name: td.Name, T: desc(td)})
			}
			if en, ok := t.(*compile.EnumSpec); ok {
				ens[base] = append(ens[base], en.Name)
			}
			s, ok := t.(*compile.StructSpec)
			if !ok {
				continue
			}
			st := strct{Name: s.Name, GoName: s.Annotations["go.name"]}
			st.Kind = "struct"
			if s.Type == ast.UnionType {
				st.Kind = "union"
			}
			for _, fl := range s.Fields {
				st.Fields = append(st.Fields, field{ID: int(fl.ID), Name: fl.Name, Required: fl.Required, Code: int(fl.Type.TypeCode()), Default: fl.Default != nil, Redact: has(fl.Annotations, "go.redact"), NoLog: has(fl.Annotations, "go.nolog"), T: desc(fl.Type), Def: defOf(fl.Default, fl.Type), Label: label(fl)})
			}
			out[base] = append(out[base], st)
		}
		// function-arguments structs of the services (Go name <Service>_<Function>_Args)
		for _, svc := range m.Services {
			for _, fn := range svc.Functions {
				st := strct{Name: svc.Name + "_" + fn.Name + "_Args", Kind: "struct"}
				for _, fl := range fn.ArgsSpec {
					st.Fields = append(st.Fields, field{ID: int(fl.ID), Name: fl.Name, Required: fl.Required, Code: int(fl.Type.TypeCode()), Default: fl.Default != nil, T: desc(fl.Type), Def: defOf(fl.Default, fl.Type)})
				}
				out[base] = append(out[base], st)
			}
		}
		for _, inc := range m.Includes {
			visit(inc.Module)
		}
	}
	for _, f := range os.Args[1:] {
		m, err := compile.Compile(f)
		if err != nil {
			continue
		}
		visit(m)
	}
	json.NewEncoder(os.Stdout).Encode(map[string]interface{}{"structs": out, "typedefs": tds, "enums": ens})
}
`

func normName(s string) string {
	return strings.ToLower(strings.ReplaceAll(s, "_", ""))
}

func (ii *InstInfo) cleanup() {
	if ii != nil && ii.root != "" {
		os.RemoveAll(ii.root)
	}
}

func runIn(dir string, name string, args ...string) (string, error) {
	cmd := exec.Command(name, args...)
	cmd.Dir = dir
	cmd.Env = append(os.Environ(), "GOFLAGS=-mod=mod", "GOPROXY=off", "GOSUMDB=off", "GOTOOLCHAIN=local")
	var buf bytes.Buffer
	cmd.Stdout = &buf
	cmd.Stderr = &buf
	err := cmd.Run()
	return buf.String(), err
}

// quickCorpus: schemas regenerated in the quick tier (the thorough tier takes
// every schema of the repository plus /verif/corpus).
var quickCorpus = map[string]bool{"structs.thrift": true, "unions.thrift": true, "enums.thrift": true, "exceptions.thrift": true}

// quickCorpusByProp: which schemas a property's quick check regenerates.
var quickCorpusByProp = map[string]map[string]bool{
	"C05": {"structs.thrift": true, "unions.thrift": true, "enums.thrift": true, "exceptions.thrift": true, "wide.thrift": true, "codec.thrift": true},
	"C15": {"structs.thrift": true, "exceptions.thrift": true, "redact.thrift": true},
	"C13": {"containers.thrift": true},
	"C01": {"structs.thrift": true, "enums.thrift": true, "unions.thrift": true, "exceptions.thrift": true, "typedefs.thrift": true, "equals.thrift": true, "codec.thrift": true},
	"C14": {"structs.thrift": true, "enums.thrift": true, "unions.thrift": true, "exceptions.thrift": true, "typedefs.thrift": true, "equals.thrift": true},
}

func prepareInst(repo, verif, tier, prop string) (*InstInfo, error) {
	root, err := os.MkdirTemp("", "gvc-inst-")
	if err != nil {
		return nil, err
	}
	ii := &InstInfo{root: root, dir: filepath.Join(root, "mod"), verif: verif}
	fail := func(format string, args ...interface{}) (*InstInfo, error) {
		os.RemoveAll(root)
		return nil, fmt.Errorf(format, args...)
	}
	bin := filepath.Join(root, "thriftrw")
	if out, err := runIn(repo, "go", "build", "-o", bin, "."); err != nil {
		return fail("building the generator from the working tree failed: %v\n%s", err, out)
	}
	corpus := filepath.Join(root, "corpus")
	os.MkdirAll(corpus, 0o755)
	var files []string
	for _, dir := range []string{filepath.Join(repo, "gen/internal/tests/thrift"), filepath.Join(verif, "corpus")} {
		ms, _ := filepath.Glob(filepath.Join(dir, "*.thrift"))
		sort.Strings(ms)
		for _, f := range ms {
			data, err := os.ReadFile(f)
			if err != nil {
				continue
			}
			dst := filepath.Join(corpus, filepath.Base(f))
			os.WriteFile(dst, data, 0o644)
			files = append(files, dst)
		}
	}
	os.MkdirAll(filepath.Join(ii.dir, "gen"), 0o755)
	for _, f := range files {
		base := filepath.Base(f)
		fromRepo := true
		if _, err := os.Stat(filepath.Join(verif, "corpus", base)); err == nil {
			fromRepo = false
		}
		if sel, ok := quickCorpusByProp[prop]; ok && tier != "thorough" {
			if !sel[base] {
				continue
			}
		} else if tier != "thorough" && fromRepo && !quickCorpus[base] {
			continue
		}
		args := []string{"--out", filepath.Join(ii.dir, "gen"), "--pkg-prefix", "example.com/corpus/gen", "--thrift-root", corpus}
		switch base {
		case "nozap.thrift":
			args = append(args, "--no-recurse", "--no-zap")
		case "enum-text-marshal-strict.thrift":
			args = append(args, "--no-recurse", "--enum-text-marshal-strict")
		}
		args = append(args, f)
		if out, err := runIn(root, bin, args...); err != nil {
			ii.skipped = append(ii.skipped, fmt.Sprintf("%s: generator error: %s", base, strings.TrimSpace(out)))
			continue
		}
		ii.schemas = append(ii.schemas, base)
	}
	if len(ii.schemas) == 0 {
		return fail("no schema of the corpus could be generated: %v", ii.skipped)
	}
	gomod := "module example.com/corpus\n\ngo 1.22\n\nrequire go.uber.org/thriftrw v0.0.0\n\nreplace go.uber.org/thriftrw => " + repo + "\n"
	os.WriteFile(filepath.Join(ii.dir, "go.mod"), []byte(gomod), 0o644)
	if data, err := os.ReadFile(filepath.Join(repo, "go.sum")); err == nil {
		os.WriteFile(filepath.Join(ii.dir, "go.sum"), data, 0o644)
	}
	if out, err := runIn(ii.dir, "go", "build", "./..."); err != nil {
		return fail("the regenerated corpus does not build: %v\n%s", err, trimOut(out))
	}
	ii.pkgs = []string{"./gen/..."}
	// schema facts
	ii.structs = map[string]map[string][]schemaField{}
	ii.kinds = map[string]map[string]string{}
	os.MkdirAll(filepath.Join(ii.dir, "cmd", "schemadump"), 0o755)
	os.WriteFile(filepath.Join(ii.dir, "cmd", "schemadump", "main.go"), []byte(schemaDumpSrc), 0o644)
	var targs []string
	for _, b := range ii.schemas {
		targs = append(targs, filepath.Join(corpus, b))
	}
	if out, err := runIn(ii.dir, "go", append([]string{"run", "./cmd/schemadump"}, targs...)...); err == nil {
		var full struct {
			Structs  map[string][]schemaStruct  `json:"structs"`
			Typedefs map[string][]schemaTypedef `json:"typedefs"`
			Enums    map[string][]string        `json:"enums"`
		}
		if json.Unmarshal([]byte(out), &full) == nil {
			dump := full.Structs
			ii.typedefs = map[string]map[string]*tdesc{}
			ii.enums = map[string]map[string]bool{}
			for base, l := range full.Typedefs {
				pk := strings.ReplaceAll(base, "-", "_")
				if ii.typedefs[pk] == nil {
					ii.typedefs[pk] = map[string]*tdesc{}
				}
				seenTd := map[string]bool{}
				for _, td := range l {
					k := normName(td.Name)
					if seenTd[k] {
						// two schema names with the same Go-normalised key: neither is used
						ii.typedefs[pk][k] = nil
						ii.skipped = append(ii.skipped, fmt.Sprintf("%s: typedef names colliding after normalisation (%s): no contracts derived for them", base, td.Name))
						continue
					}
					seenTd[k] = true
					ii.typedefs[pk][k] = td.T
				}
			}
			for base, l := range full.Enums {
				pk := strings.ReplaceAll(base, "-", "_")
				if ii.enums[pk] == nil {
					ii.enums[pk] = map[string]bool{}
				}
				for _, n := range l {
					ii.enums[pk][normName(n)] = true
				}
			}
			for base, sts := range dump {
				pk := strings.ReplaceAll(base, "-", "_")
				if ii.structs[pk] == nil {
					ii.structs[pk] = map[string][]schemaField{}
					ii.kinds[pk] = map[string]string{}
				}
				for _, st := range sts {
					n := st.GoName
					if n == "" {
						n = st.Name
					}
					if _, dup := ii.structs[pk][normName(n)]; dup {
						// colliding names (e.g. a declared struct named like a function-arguments struct): neither is used
						ii.structs[pk][normName(n)] = nil
						ii.skipped = append(ii.skipped, fmt.Sprintf("%s: struct names colliding after normalisation (%s): no contracts derived for them", base, n))
						continue
					}
					ii.structs[pk][normName(n)] = st.Fields
					ii.kinds[pk][normName(n)] = st.Kind
				}
			}
		}
	} else {
		ii.skipped = append(ii.skipped, "schema dump failed (presence obligations not generated): "+trimOut(out))
	}
	return ii, nil
}

// ---------------------------------------------------------------------------
// contract synthesis

const validR = "rpos(sr) >= 0 && rpos(sr) <= 4611686018427387904"

// streamCallName: the stream.Reader method invoked by a call instruction.
func streamCallName(c *ssa.CallCommon) string {
	if !c.IsInvoke() {
		return ""
	}
	if n, ok := c.Value.Type().(*types.Named); ok && n.Obj().Name() == "Reader" && n.Obj().Pkg() != nil && strings.HasSuffix(n.Obj().Pkg().Path(), "protocol/stream") {
		return c.Method.Name()
	}
	return ""
}

func isDecoder(f *ssa.Function) bool {
	if f == nil || len(f.Blocks) == 0 || !strings.Contains(f.Name(), "Decode") {
		return false
	}
	for _, p := range f.Params {
		if n, ok := p.Type().(*types.Named); ok && n.Obj().Name() == "Reader" && n.Obj().Pkg() != nil && strings.HasSuffix(n.Obj().Pkg().Path(), "protocol/stream") {
			return p.Name() == "sr"
		}
	}
	return false
}

var readCodes = map[string]int{"ReadBool": 2, "ReadInt8": 3, "ReadDouble": 4, "ReadInt16": 6, "ReadInt32": 8, "ReadInt64": 10, "ReadString": 11, "ReadBinary": 11,
	"ReadFieldBegin": 12, "ReadMapBegin": 13, "ReadSetBegin": 14, "ReadListBegin": 15}

// decoderCode: the wire type code a decoder consumes, read off the first
// stream call it makes (delegating wrappers take the code of their delegate).
func decoderCode(f *ssa.Function, seen map[*ssa.Function]bool) int {
	if seen[f] {
		return 0
	}
	seen[f] = true
	for _, b := range f.Blocks {
		for _, in := range b.Instrs {
			c, ok := in.(ssa.CallInstruction)
			if !ok {
				continue
			}
			cc := c.Common()
			if n := streamCallName(cc); n != "" {
				if code, ok := readCodes[n]; ok {
					return code
				}
				continue
			}
			if g, ok := cc.Value.(*ssa.Function); ok && isDecoder(g) {
				if code := decoderCode(g, seen); code != 0 {
					return code
				}
			}
		}
	}
	return 0
}

func newContract(fn *ssa.Function, prop string) *Contract {
	return &Contract{Func: fn.String(), Short: fn.Name(), Pkg: fnPkg(fn).Path(), Props: []string{prop}, File: "synthesised", Line: 0,
		LoopInv: map[int][]*Clause{}, LoopDec: map[int][]*Clause{}, LoopMod: map[int][]*Clause{}, LoopUse: map[int][]*Clause{}}
}

func cl(kind, label, text string) *Clause {
	return &Clause{Kind: kind, Label: label, Text: text, File: "synthesised"}
}

func (ii *InstInfo) addContracts(p *Program, cs *ContractSet, prop string) error {
	// spec prelude and unfolding axioms shared by all instance contracts
	have := false
	for _, s := range cs.Spec {
		if s == "thriftbin.smt2" {
			have = true
		}
	}
	if !have {
		cs.Spec = append(cs.Spec, "thriftbin.smt2")
		if err := p.spec.load(filepath.Join(ii.verif, "spec", "thriftbin.smt2")); err != nil {
			return err
		}
	}
	cs.Macros["unfoldFields"] = &Macro{Kind: "axiom", Params: []string{"a", "p"}, Body: "fieldsEnd(a, p) == ite(a[p] == 0, p + 1, fieldsEnd(a, skipEnd(a, a[p], p + 3)))"}
	cs.Macros["unfoldHas"] = &Macro{Kind: "axiom", Params: []string{"a", "p", "id", "ty"}, Body: "hasField(a, p, id, ty) <==> (a[p] != 0 && ((a[p] == ty && be16at(a, p + 1) == id) || hasField(a, skipEnd(a, a[p], p + 3), id, ty)))"}
	cs.Macros["unfoldList"] = &Macro{Kind: "axiom", Params: []string{"a", "t", "k", "q"}, Body: "listEnd(a, t, k, q) == ite(k <= 0, q, listEnd(a, t, k - 1, skipEnd(a, t, q)))"}
	cs.Macros["unfoldMap"] = &Macro{Kind: "axiom", Params: []string{"a", "kt", "vt", "k", "q"}, Body: "mapEnd(a, kt, vt, k, q) == ite(k <= 0, q, mapEnd(a, kt, vt, k - 1, skipEnd(a, vt, skipEnd(a, kt, q))))"}
	if prop == "C15" {
		return ii.addRedactionContracts(p, cs, prop)
	}
	if prop == "C13" {
		return ii.addAllocContracts(p, cs, prop)
	}
	if prop == "C14" {
		return ii.addEqualsContracts(p, cs, prop)
	}

	var fns []*ssa.Function
	for f := range p.allFns {
		pk := fnPkg(f)
		// one-line address-of helpers (ptr.Bool, _X_ptr) are executed in place
		if pk != nil && len(f.Blocks) == 1 && f.Signature.Results().Len() == 1 && (pk.Path() == "go.uber.org/thriftrw/ptr" || (strings.HasPrefix(pk.Path(), "example.com/corpus/") && strings.HasSuffix(f.Name(), "_ptr"))) {
			if _, have := cs.ByFunc[f.String()]; !have {
				ic := newContract(f, prop)
				ic.Inline = true
				ic.Props = nil
				cs.ByFunc[f.String()] = ic
			}
		}
		if pk == nil || !strings.HasPrefix(pk.Path(), "example.com/corpus/") {
			continue
		}
		if isDecoder(f) {
			fns = append(fns, f)
		}
	}
	sort.Slice(fns, func(i, j int) bool { return fns[i].String() < fns[j].String() })
	for _, f := range fns {
		code := decoderCode(f, map[*ssa.Function]bool{})
		if code == 0 {
			continue
		}
		ct := newContract(f, prop)
		recv := ""
		if f.Signature.Recv() != nil && len(f.Params) > 0 {
			recv = f.Params[0].Name()
		}
		req := validR
		if recv != "" {
			req = recv + " != nil && " + validR
		}
		ct.Requires = append(ct.Requires, cl("requires", "", req))
		ct.Lets = append(ct.Lets, cl("let", "", "p0 = rpos(sr)"))
		ct.Modifies = append(ct.Modifies, cl("modifies", "", "all"))
		ct.Ensures = append(ct.Ensures,
			cl("ensures", "sync", fmt.Sprintf("err == nil ==> rpos(sr) == skipEnd(rin(sr), %d, p0)", code)),
			cl("ensures", "valid", "rpos(sr) >= p0 && rpos(sr) <= 4611686018427387904"))
		first := firstStreamCall(f)
		loops := findLoops(f)
		switch first {
		case "ReadFieldBegin":
			if len(loops) != 1 {
				continue
			}
			ct.Uses = append(ct.Uses, cl("use", "", "unfoldFields(rin(sr), rpos(sr))"))
			ct.LoopInv[1] = []*Clause{
				cl("invariant", "", "rpos(sr) >= p0 && rpos(sr) <= 4611686018427387904"),
				cl("invariant", "hdrpos", "ok ==> rpos(sr) >= p0 + 3 && rin(sr)[rpos(sr) - 3] != 0"),
				cl("invariant", "hdrtype", "ok ==> fh.Type == int8(rin(sr)[rpos(sr) - 3])"),
				cl("invariant", "hdrid", "ok ==> fh.ID == int16(be16at(rin(sr), rpos(sr) - 2))"),
				cl("invariant", "hdrend", "ok ==> fieldsEnd(rin(sr), rpos(sr) - 3) == fieldsEnd(rin(sr), p0)"),
				cl("invariant", "stop", "!ok ==> rpos(sr) == fieldsEnd(rin(sr), p0)"),
			}
			ct.LoopUse[1] = []*Clause{cl("use", "", "unfoldFields(rin(sr), rpos(sr) - 3)"), cl("use", "", "unfoldFields(rin(sr), rpos(sr) - 1)")}
			ii.addPresence(f, ct)
		case "ReadListBegin", "ReadSetBegin":
			h := "lh"
			if first == "ReadSetBegin" {
				h = "sh"
			}
			for n := 1; n <= len(loops); n++ {
				ct.LoopInv[n] = []*Clause{
					cl("invariant", "", fmt.Sprintf("rpos(sr) >= p0 && rpos(sr) <= 4611686018427387904 && 0 <= i && i <= %s.Length && %s.Length <= 2147483647", h, h)),
					cl("invariant", "end", fmt.Sprintf("listEnd(rin(sr), %s.Type, %s.Length - i, rpos(sr)) == listEnd(rin(sr), %s.Type, %s.Length, p0 + 5)", h, h, h, h)),
					cl("invariant", "hdr", fmt.Sprintf("%s.Type == int8(rin(sr)[p0]) && %s.Length == int64(int32(be32at(rin(sr), p0 + 1)))", h, h)),
				}
				ct.LoopUse[n] = []*Clause{cl("use", "", fmt.Sprintf("unfoldList(rin(sr), %s.Type, %s.Length - i, rpos(sr))", h, h))}
			}
			if len(loops) == 0 {
				continue
			}
			// element-type mismatch: a container whose declared element type differs from
			// the one on the wire is skipped, never decoded (empty result)
			if rt := f.Signature.Results().At(0).Type(); f.Signature.Results().Len() == 2 {
				var et types.Type
				switch tt := rt.Underlying().(type) {
				case *types.Slice:
					et = tt.Elem()
				case *types.Map:
					et = tt.Key()
				}
				if code := goWireCode(et); code != 0 {
					ct.Ensures = append(ct.Ensures, cl("ensures", "mismatch", fmt.Sprintf("err == nil && int8(rin(sr)[p0]) != %d ==> len(result0) == 0", code)))
				}
			}
		case "ReadMapBegin":
			for n := 1; n <= len(loops); n++ {
				ct.LoopInv[n] = []*Clause{
					cl("invariant", "", "rpos(sr) >= p0 && rpos(sr) <= 4611686018427387904 && 0 <= i && i <= mh.Length && mh.Length <= 2147483647"),
					cl("invariant", "end", "mapEnd(rin(sr), mh.KeyType, mh.ValueType, mh.Length - i, rpos(sr)) == mapEnd(rin(sr), mh.KeyType, mh.ValueType, mh.Length, p0 + 6)"),
					cl("invariant", "hdr", "mh.KeyType == int8(rin(sr)[p0]) && mh.ValueType == int8(rin(sr)[p0 + 1]) && mh.Length == int64(int32(be32at(rin(sr), p0 + 2)))"),
				}
				ct.LoopUse[n] = []*Clause{cl("use", "", "unfoldMap(rin(sr), mh.KeyType, mh.ValueType, mh.Length - i, rpos(sr))")}
			}
			if len(loops) == 0 {
				continue
			}
		default:
			if len(loops) != 0 {
				continue
			}
		}
		ct.ErrsFromCallees = true
		if _, dup := cs.ByFunc[ct.Func]; dup {
			continue
		}
		cs.ByFunc[ct.Func] = ct
		cs.Order = append(cs.Order, ct)
		ii.funcs++
	}
	if ii.funcs == 0 {
		return fmt.Errorf("no decoder found in the regenerated corpus")
	}
	if prop == "C01" {
		// C01 shares the decoder contracts with C05: the clauses that belong to C01
		// (declared defaults filled in, union arity) are obligations here; decoders
		// without such clauses are taken as proved by the C05 check (assumed here).
		for _, ct := range cs.Order {
			if ct.File != "synthesised" || !hasProp(ct.Props, prop) {
				continue
			}
			keep := false
			for _, e := range ct.Ensures {
				if strings.HasPrefix(e.Label, "default_") || e.Label == "arity" {
					keep = true
				}
			}
			if !keep {
				ct.Trusted = true
				ct.Props = nil
			}
		}
		return ii.addCodecContracts(p, cs, prop)
	}
	return nil
}

// addPresence (G2, one direction): success implies that every required field
// without default occurred with its id and declared wire type. The required
// fields come from the compiled schema; the decoder's <name>IsSet locals are
// located by name.
func (ii *InstInfo) addPresence(f *ssa.Function, ct *Contract) {
	recv := f.Signature.Recv()
	if recv == nil {
		return
	}
	pt, ok := recv.Type().(*types.Pointer)
	if !ok {
		return
	}
	named, ok := pt.Elem().(*types.Named)
	if !ok {
		return
	}
	pkgBase := filepath.Base(named.Obj().Pkg().Path())
	fields, ok := ii.structs[pkgBase][normName(named.Obj().Name())]
	if !ok {
		return
	}
	// union arity and declared defaults, over the Go struct's fields (declaration order)
	if stt, ok := named.Underlying().(*types.Struct); ok && stt.NumFields() == len(fields) {
		recvName := f.Params[0].Name()
		if ii.kinds[pkgBase][normName(named.Obj().Name())] == "union" && len(fields) > 0 {
			var terms []string
			for i := range fields {
				terms = append(terms, fmt.Sprintf("ite(%s.%s != nil, 1, 0)", recvName, stt.Field(i).Name()))
			}
			ct.Ensures = append(ct.Ensures, cl("ensures", "arity", "err == nil ==> "+strings.Join(terms, " + ")+" == 1"))
			ct.ErrsUnless = joinOr(ct.ErrsUnless, "!("+strings.Join(terms, " + ")+" == 1)")
			ii.presence++
		}
		for i, fl := range fields {
			if !fl.Default {
				continue
			}
			switch stt.Field(i).Type().Underlying().(type) {
			case *types.Pointer, *types.Slice, *types.Map:
				ct.Ensures = append(ct.Ensures, cl("ensures", "default_"+fl.Name, fmt.Sprintf("err == nil ==> %s.%s != nil", recvName, stt.Field(i).Name())))
				ii.presence++
			}
		}
	}
	locals := map[string]bool{}
	for _, b := range f.Blocks {
		for _, in := range b.Instrs {
			if a, ok := in.(*ssa.Alloc); ok && strings.HasSuffix(a.Comment, "IsSet") {
				locals[a.Comment] = true
			}
		}
	}
	for _, fl := range fields {
		if !fl.Required {
			continue
		}
		v := fl.Name + "IsSet"
		if !locals[v] {
			// the schema says required but the decoder keeps no presence flag:
			// state the obligation anyway so that it fails
			ct.Ensures = append(ct.Ensures, cl("ensures", "required_"+fl.Name, fmt.Sprintf("err == nil ==> hasField(rin(sr), p0, %d, %d)", fl.ID, fl.Code)))
			ct.Uses = append(ct.Uses, cl("use", "", fmt.Sprintf("unfoldHas(rin(sr), rpos(sr), %d, %d)", fl.ID, fl.Code)))
			ii.presence++
			continue
		}
		ct.Uses = append(ct.Uses, cl("use", "", fmt.Sprintf("unfoldHas(rin(sr), rpos(sr), %d, %d)", fl.ID, fl.Code)))
		ct.LoopInv[1] = append(ct.LoopInv[1], cl("invariant", "seen_"+fl.Name,
			fmt.Sprintf("hasField(rin(sr), p0, %d, %d) <==> (%s || (ok && hasField(rin(sr), rpos(sr) - 3, %d, %d)))", fl.ID, fl.Code, v, fl.ID, fl.Code)))
		ct.LoopUse[1] = append(ct.LoopUse[1],
			cl("use", "", fmt.Sprintf("unfoldHas(rin(sr), rpos(sr) - 3, %d, %d)", fl.ID, fl.Code)),
			cl("use", "", fmt.Sprintf("unfoldHas(rin(sr), rpos(sr) - 1, %d, %d)", fl.ID, fl.Code)))
		ct.Ensures = append(ct.Ensures, cl("ensures", "required_"+fl.Name, fmt.Sprintf("err == nil ==> hasField(rin(sr), p0, %d, %d)", fl.ID, fl.Code)))
		ct.ErrsUnless = joinOr(ct.ErrsUnless, fmt.Sprintf("!hasField(rin(sr), p0, %d, %d)", fl.ID, fl.Code))
		ii.presence++
	}
}

func joinOr(a, b string) string {
	if a == "" {
		return b
	}
	return a + " || " + b
}

// addAllocContracts (C13): every emitted container decoder carries an
// allocation-size obligation at each make: at most 1 MiB worth of elements may
// be reserved on the strength of a declared count alone.
func (ii *InstInfo) addAllocContracts(p *Program, cs *ContractSet, prop string) error {
	var fns []*ssa.Function
	for f := range p.allFns {
		pk := fnPkg(f)
		if pk == nil || !strings.HasPrefix(pk.Path(), "example.com/corpus/") || !isDecoder(f) {
			continue
		}
		switch firstStreamCall(f) {
		case "ReadListBegin", "ReadSetBegin", "ReadMapBegin":
			fns = append(fns, f)
		default:
			// other decoders: only their effect on the cursor bounds is needed
			// here (that clause is an obligation of the C05 check)
			tc := newContract(f, prop)
			tc.Props = nil
			tc.Trusted = true
			req := validR
			if f.Signature.Recv() != nil && len(f.Params) > 0 {
				req = f.Params[0].Name() + " != nil && " + validR
			}
			tc.Requires = append(tc.Requires, cl("requires", "", req))
			tc.Modifies = append(tc.Modifies, cl("modifies", "", "all"))
			tc.Ensures = append(tc.Ensures, cl("ensures", "valid", "rpos(sr) >= 0 && rpos(sr) <= 4611686018427387904"))
			if _, dup := cs.ByFunc[tc.Func]; !dup {
				cs.ByFunc[tc.Func] = tc
				cs.Order = append(cs.Order, tc)
			}
		}
	}
	sort.Slice(fns, func(i, j int) bool { return fns[i].String() < fns[j].String() })
	for _, f := range fns {
		ct := newContract(f, prop)
		ct.Ensures = append(ct.Ensures, cl("ensures", "valid", "rpos(sr) >= 0 && rpos(sr) <= 4611686018427387904"))
		ct.Requires = append(ct.Requires, cl("requires", "", validR))
		ct.Modifies = append(ct.Modifies, cl("modifies", "", "all"))
		ct.Allocs = append(ct.Allocs, cl("alloc", "make", "n * esize <= 1048576"))
		for n := 1; n <= len(findLoops(f)); n++ {
			ct.LoopInv[n] = []*Clause{cl("invariant", "", validR)}
		}
		if _, dup := cs.ByFunc[ct.Func]; dup {
			continue
		}
		cs.ByFunc[ct.Func] = ct
		cs.Order = append(cs.Order, ct)
		ii.funcs++
	}
	if ii.funcs == 0 {
		return fmt.Errorf("no container decoder found in the regenerated corpus")
	}
	return nil
}

// addRedactionContracts (C15): for every emitted struct-like type with fields
// annotated go.redact / go.nolog in the compiled schema, String(), Error() and
// MarshalLogObject() get a two-run non-interference contract: the result (and
// the sequence of calls made on the zap encoder) does not depend on the
// contents of those fields. Field kinds whose contents cannot be named as a
// location (containers, structs) are listed as outside reach.
func (ii *InstInfo) addRedactionContracts(p *Program, cs *ContractSet, prop string) error {
	var fns []*ssa.Function
	for f := range p.allFns {
		pk := fnPkg(f)
		if pk == nil || !strings.HasPrefix(pk.Path(), "example.com/corpus/") || len(f.Blocks) == 0 || f.Signature.Recv() == nil {
			continue
		}
		switch f.Name() {
		case "String", "Error", "MarshalLogObject":
			fns = append(fns, f)
		}
	}
	sort.Slice(fns, func(i, j int) bool { return fns[i].String() < fns[j].String() })
	for _, f := range fns {
		pt, ok := f.Signature.Recv().Type().(*types.Pointer)
		if !ok {
			continue
		}
		named, ok := pt.Elem().(*types.Named)
		if !ok {
			continue
		}
		stt, ok := named.Underlying().(*types.Struct)
		if !ok {
			continue
		}
		pkgBase := filepath.Base(named.Obj().Pkg().Path())
		fields, ok := ii.structs[pkgBase][normName(named.Obj().Name())]
		if !ok || stt.NumFields() != len(fields) {
			continue
		}
		recv := f.Params[0].Name()
		ct := newContract(f, prop)
		for i, fl := range fields {
			secret := fl.Redact || (fl.NoLog && f.Name() == "MarshalLogObject")
			if !secret {
				continue
			}
			gf := stt.Field(i)
			loc := recv + "." + gf.Name()
			switch tt := gf.Type().Underlying().(type) {
			case *types.Basic:
				ct.Secrets = append(ct.Secrets, cl("secret", "", loc))
			case *types.Pointer:
				if _, ok := tt.Elem().Underlying().(*types.Basic); ok {
					ct.Secrets = append(ct.Secrets, cl("secret", "", "*"+loc))
					if fl.NoLog && f.Name() == "MarshalLogObject" {
						ct.Secrets = append(ct.Secrets, cl("secret", "", loc))
					}
				} else {
					ii.skipped = append(ii.skipped, fmt.Sprintf("%s.%s: redacted field of kind %s cannot be named as a secret location", named.Obj().Name(), gf.Name(), gf.Type()))
				}
			case *types.Slice:
				if b, ok := tt.Elem().Underlying().(*types.Basic); ok && b.Kind() == types.Uint8 {
					ct.Secrets = append(ct.Secrets, cl("secret", "", "elems("+loc+")"))
					if fl.NoLog && f.Name() == "MarshalLogObject" {
						ct.Secrets = append(ct.Secrets, cl("secret", "", loc))
					}
				} else {
					ii.skipped = append(ii.skipped, fmt.Sprintf("%s.%s: redacted field of kind %s cannot be named as a secret location", named.Obj().Name(), gf.Name(), gf.Type()))
				}
			default:
				ii.skipped = append(ii.skipped, fmt.Sprintf("%s.%s: redacted field of kind %s cannot be named as a secret location", named.Obj().Name(), gf.Name(), gf.Type()))
			}
		}
		// "every other set field does appear, under its label": when every visible
		// (neither redacted nor no-log) field is a scalar or string, the encoder log
		// after MarshalLogObject is exactly the fold over the fields in declaration
		// order: visible set fields under their Thrift name with their value,
		// redacted set fields under their name with "<redacted>", no-log fields absent.
		if f.Name() == "MarshalLogObject" && len(f.Params) > 1 {
			if logx := ii.zapFold(fields, stt, recv, f.Params[1].Name()); logx != "" {
				ct.Ensures = append(ct.Ensures, cl("ensures", "log", fmt.Sprintf("%s != nil ==> zlog(%s) == %s", recv, f.Params[1].Name(), logx)))
			}
		}
		if len(ct.Secrets) == 0 && len(ct.Ensures) == 0 {
			continue
		}
		// separation: a secret pointee / backing array is not shared with another field of the value
		for i, fl := range fields {
			secret := fl.Redact || (fl.NoLog && f.Name() == "MarshalLogObject")
			if !secret {
				continue
			}
			gi := stt.Field(i)
			for j := 0; j < stt.NumFields(); j++ {
				if j == i {
					continue
				}
				gj := stt.Field(j)
				switch ti := gi.Type().Underlying().(type) {
				case *types.Pointer:
					if tj, ok := gj.Type().Underlying().(*types.Pointer); ok && skey(ti.Elem()) == skey(tj.Elem()) {
						ct.Requires = append(ct.Requires, cl("requires", "", fmt.Sprintf("%s == nil || %s.%s == nil || %s.%s != %s.%s", recv, recv, gj.Name(), recv, gj.Name(), recv, gi.Name())))
					}
				case *types.Slice:
					if tj, ok := gj.Type().Underlying().(*types.Slice); ok && skey(ti.Elem()) == skey(tj.Elem()) {
						ct.Requires = append(ct.Requires, cl("requires", "", fmt.Sprintf("%s == nil || ref(%s.%s) == 0 || ref(%s.%s) != ref(%s.%s)", recv, recv, gj.Name(), recv, gj.Name(), recv, gi.Name())))
					}
				}
			}
		}
		if f.Name() == "String" {
			// Error() returns String(): executed in place there
			ct.Inline = true
		}
		if f.Name() == "MarshalLogObject" && len(f.Params) > 1 {
			enc := f.Params[1].Name()
			ct.NiOuts = append(ct.NiOuts, cl("niout", "", "zlog("+enc+")"), cl("niout", "", "result0"))
		}
		if _, dup := cs.ByFunc[ct.Func]; dup {
			continue
		}
		cs.ByFunc[ct.Func] = ct
		cs.Order = append(cs.Order, ct)
		ii.funcs++
	}
	if ii.funcs == 0 {
		return fmt.Errorf("no redacted field found in the regenerated corpus")
	}
	return nil
}

func firstStreamCall(f *ssa.Function) string {
	for _, b := range f.Blocks {
		for _, in := range b.Instrs {
			if c, ok := in.(ssa.CallInstruction); ok {
				if n := streamCallName(c.Common()); n != "" {
					if _, ok := readCodes[n]; ok {
						return n
					}
				}
			}
		}
	}
	return ""
}

// selftest: the must-fail regression over the seeded changes (seeded/run_all.sh):
// every seed is applied to /repo in turn, the check of its property must report
// a violation, and the tree is restored. /repo must be clean.
func selftest(args []string) int {
	dir := "/verif"
	if len(args) > 0 {
		dir = args[0]
	}
	cmd := exec.Command(filepath.Join(dir, "seeded", "run_all.sh"))
	cmd.Stdout, cmd.Stderr = os.Stdout, os.Stderr
	if err := cmd.Run(); err != nil {
		return 1
	}
	return 0
}

// goWireCode: the wire type code of a Go element type when it is unambiguous
// (scalars, strings / byte slices, struct pointers); 0 otherwise.
func goWireCode(t types.Type) int {
	if t == nil {
		return 0
	}
	switch tt := t.Underlying().(type) {
	case *types.Basic:
		switch tt.Kind() {
		case types.Bool:
			return 2
		case types.Int8:
			return 3
		case types.Float64:
			return 4
		case types.Int16:
			return 6
		case types.Int32:
			return 8
		case types.Int64:
			return 10
		case types.String:
			return 11
		}
	case *types.Slice:
		if b, ok := tt.Elem().Underlying().(*types.Basic); ok && b.Kind() == types.Uint8 {
			return 11
		}
	case *types.Pointer:
		if _, ok := tt.Elem().Underlying().(*types.Struct); ok {
			return 12
		}
	}
	return 0
}

// zapFold: the expected encoder log as a nested term ("" when a visible field is not a scalar).
func (ii *InstInfo) zapFold(fields []schemaField, stt *types.Struct, recv, enc string) string {
	log := fmt.Sprintf("old(zlog(%s))", enc)
	for i, fl := range fields {
		if fl.NoLog {
			continue
		}
		gf := stt.Field(i)
		loc := recv + "." + gf.Name()
		t := gf.Type()
		opt := false
		if pt, ok := t.Underlying().(*types.Pointer); ok {
			if _, isStruct := pt.Elem().Underlying().(*types.Struct); !isStruct {
				opt = true
				t = pt.Elem()
			}
		}
		key := fl.Label
		if key == "" {
			key = fl.Name
		}
		for _, c := range key {
			if c < 32 || c > 126 || c == '"' || c == '\\' {
				return ""
			}
		}
		var add string
		if fl.Redact {
			switch gf.Type().Underlying().(type) {
			case *types.Pointer, *types.Slice, *types.Map:
				opt = true
			}
			add = fmt.Sprintf("zapAddStr(%s, \"%s\", \"<redacted>\")", log, key)
		} else {
			if fl.T == nil {
				return ""
			}
			val := loc
			if opt {
				val = "(*" + loc + ")"
			}
			if _, named := t.(*types.Named); named {
				return "" // typedefs / enums log through their own marshalers
			}
			switch fl.T.K {
			case "bool":
				add = fmt.Sprintf("zapAddBool(%s, \"%s\", %s)", log, key, val)
			case "i8":
				add = fmt.Sprintf("zapAddI8(%s, \"%s\", %s)", log, key, val)
			case "i16":
				add = fmt.Sprintf("zapAddI16(%s, \"%s\", %s)", log, key, val)
			case "i32":
				add = fmt.Sprintf("zapAddI32(%s, \"%s\", %s)", log, key, val)
			case "i64":
				add = fmt.Sprintf("zapAddI64(%s, \"%s\", %s)", log, key, val)
			case "double":
				add = fmt.Sprintf("zapAddF64(%s, \"%s\", bits(%s))", log, key, val)
			case "string":
				add = fmt.Sprintf("zapAddStr(%s, \"%s\", %s)", log, key, val)
			default:
				return ""
			}
		}
		if opt {
			log = fmt.Sprintf("ite(%s != nil, %s, %s)", loc, add, log)
		} else {
			log = add
		}
	}
	return log
}
