package main

// Generated-code instances (DESIGN §1.9): placeholder until the instance
// engine lands.

import "fmt"

type InstInfo struct {
	dir     string
	pkgs    []string
	schemas []string
}

func prepareInst(repo, verif, tier string) (*InstInfo, error) {
	return nil, fmt.Errorf("instance engine not built")
}
func (ii *InstInfo) cleanup() {}
func (ii *InstInfo) addContracts(p *Program, cs *ContractSet, prop string) error { return nil }

func selftest(args []string) int { return 2 }
