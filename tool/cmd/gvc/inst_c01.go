package main

// Schema-derived contracts for the emitted value-level codec (C01, instance
// engine): accessors (GetX / IsSetX) against the declared defaults, and
// ToWire of struct-like types against the schema: the resulting wire struct
// has exactly one field per set field, in declaration order, each with the
// schema's field id, the wire type of its Thrift type and (for scalars,
// strings, binaries, enums) the field's value; a nil required field of
// reference type is an error; a union with other than one member set is an
// error. The schema facts come from /repo's own compile package (schemadump).

import (
	"fmt"
	"go/types"
	"path/filepath"
	"sort"
	"strings"

	"golang.org/x/tools/go/ssa"
)

// schemaOf: schema fields, kind and Go struct behind the receiver of a method on *S.
func (ii *InstInfo) schemaOf(f *ssa.Function) ([]schemaField, string, *types.Struct, *types.Named, bool) {
	if f.Signature.Recv() == nil {
		return nil, "", nil, nil, false
	}
	pt, ok := f.Signature.Recv().Type().(*types.Pointer)
	if !ok {
		return nil, "", nil, nil, false
	}
	named, ok := pt.Elem().(*types.Named)
	if !ok || named.Obj().Pkg() == nil {
		return nil, "", nil, nil, false
	}
	stt, ok := named.Underlying().(*types.Struct)
	if !ok {
		return nil, "", nil, nil, false
	}
	pkgBase := filepath.Base(named.Obj().Pkg().Path())
	fields, ok := ii.structs[pkgBase][normName(named.Obj().Name())]
	if !ok || len(fields) != stt.NumFields() {
		return nil, "", nil, nil, false
	}
	for _, fl := range fields {
		if fl.T == nil {
			return nil, "", nil, nil, false
		}
	}
	return fields, ii.kinds[pkgBase][normName(named.Obj().Name())], stt, named, true
}

// zeroLit / defLit: contract-language literals for the zero value and a declared default of a scalar Go type.
func scalarEq(result string, t types.Type, d *defv) string {
	b, ok := t.Underlying().(*types.Basic)
	if !ok {
		return ""
	}
	switch {
	case b.Info()&types.IsBoolean != 0:
		if d != nil && d.K == "bool" && d.B {
			return result
		}
		if d != nil && d.K != "bool" {
			return ""
		}
		return "!" + result
	case b.Info()&types.IsFloat != 0:
		bits := uint64(0)
		if d != nil {
			if d.K != "double" {
				return ""
			}
			bits = d.F
		}
		return fmt.Sprintf("bits(%s) == %d", result, bits)
	case b.Info()&types.IsInteger != 0:
		v := int64(0)
		if d != nil {
			if d.K != "int" {
				return ""
			}
			v = d.I
		}
		return fmt.Sprintf("int64(%s) == %d", result, v)
	case b.Info()&types.IsString != 0:
		s := ""
		if d != nil {
			if d.K != "string" {
				return ""
			}
			s = d.S
		}
		for _, c := range s {
			if c < 32 || c > 126 || c == '"' || c == '\\' {
				return ""
			}
		}
		return fmt.Sprintf("%s == \"%s\"", result, s)
	}
	return ""
}

func (ii *InstInfo) addCodecContracts(p *Program, cs *ContractSet, prop string) error {
	var all []*ssa.Function
	for f := range p.allFns {
		if isCorpusFn(f) {
			all = append(all, f)
		}
	}
	sort.Slice(all, func(i, j int) bool { return all[i].String() < all[j].String() })
	add := func(ct *Contract) {
		if _, dup := cs.ByFunc[ct.Func]; dup {
			return
		}
		cs.ByFunc[ct.Func] = ct
		cs.Order = append(cs.Order, ct)
		ii.funcs++
	}
	// leaf helpers executed in place
	for _, f := range all {
		if len(f.Blocks) == 1 && f.Signature.Results().Len() == 1 && strings.HasSuffix(f.Name(), "_ptr") {
			if _, have := cs.ByFunc[f.String()]; !have {
				ic := newContract(f, prop)
				ic.Inline = true
				ic.Props = nil
				cs.ByFunc[f.String()] = ic
			}
		}
	}
	for _, f := range all {
		if f.Name() == "ToWire" && f.Signature.Recv() != nil && len(f.Params) == 1 && f.Signature.Results().Len() == 2 {
			if d, gt, ok := ii.typedefOrEnumRecv(f); ok {
				ct := newContract(f, prop)
				ct.Modifies = append(ct.Modifies, cl("modifies", "", "nothing"))
				recv := f.Params[0].Name()
				if _, isPtr := gt.(*types.Pointer); isPtr {
					ct.Requires = append(ct.Requires, cl("requires", "", recv+" != nil"))
				}
				ct.Ensures = append(ct.Ensures, cl("ensures", "typ", fmt.Sprintf("err == nil ==> result0.typ == %d", wireCode(d.K))))
				if c := scalarContent(d.K, "result0", recv); c != "" {
					g := "err == nil"
					if d.K == "binary" {
						g += " && " + recv + " != nil"
					}
					ct.Ensures = append(ct.Ensures, cl("ensures", "val", g+" ==> "+c))
				}
				add(ct)
				continue
			}
		}
		fields, kind, stt, named, ok := ii.schemaOf(f)
		if !ok || len(f.Params) == 0 {
			continue
		}
		recv := f.Params[0].Name()
		name := f.Name()
		switch {
		case (strings.HasPrefix(name, "Get") || strings.HasPrefix(name, "IsSet")) && len(f.Params) == 1 && f.Signature.Results().Len() == 1:
			fname := strings.TrimPrefix(strings.TrimPrefix(name, "IsSet"), "Get")
			idx := -1
			for i := 0; i < stt.NumFields(); i++ {
				if stt.Field(i).Name() == fname {
					idx = i
				}
			}
			if idx < 0 {
				continue
			}
			fl := fields[idx]
			gft := stt.Field(idx).Type()
			loc := recv + "." + fname
			ct := newContract(f, prop)
			ct.Pure = true
			ct.NoPanic = true
			if strings.HasPrefix(name, "IsSet") {
				ct.Ensures = append(ct.Ensures, cl("ensures", "isset", fmt.Sprintf("result == (%s != nil && %s != nil)", recv, loc)))
				add(ct)
				continue
			}
			rt := f.Signature.Results().At(0).Type()
			switch tt := gft.Underlying().(type) {
			case *types.Pointer:
				if _, isStruct := tt.Elem().Underlying().(*types.Struct); isStruct {
					ct.Pure = false
					ct.Modifies = append(ct.Modifies, cl("modifies", "", "nothing"))
					ct.Ensures = append(ct.Ensures, cl("ensures", "set", fmt.Sprintf("%s != nil && %s != nil ==> result == %s", recv, loc, loc)))
					if fl.Def == nil {
						ct.Ensures = append(ct.Ensures, cl("ensures", "unset", fmt.Sprintf("!(%s != nil && %s != nil) ==> result == nil", recv, loc)))
					} else {
						ct.Ensures = append(ct.Ensures, cl("ensures", "default", fmt.Sprintf("!(%s != nil && %s != nil) ==> result != nil", recv, loc)))
					}
				} else {
					// optional scalar
					eqv := fmt.Sprintf("result == *%s", loc)
					if isFloat(rt) {
						eqv = fmt.Sprintf("bits(result) == bits(*%s)", loc)
					}
					ct.Ensures = append(ct.Ensures, cl("ensures", "set", fmt.Sprintf("%s != nil && %s != nil ==> %s", recv, loc, eqv)))
					if e := scalarEq("result", rt, fl.Def); e != "" {
						ct.Ensures = append(ct.Ensures, cl("ensures", "default", fmt.Sprintf("!(%s != nil && %s != nil) ==> %s", recv, loc, e)))
					} else {
						ii.skipped = append(ii.skipped, fmt.Sprintf("%s.%s: default of %s is not a scalar literal (accessor default not an obligation)", named.Obj().Name(), name, fname))
					}
				}
			case *types.Slice, *types.Map:
				ct.Pure = false
				ct.Modifies = append(ct.Modifies, cl("modifies", "", "nothing"))
				if fl.Required && fl.Def == nil {
					ct.Ensures = append(ct.Ensures, cl("ensures", "value", fmt.Sprintf("%s != nil ==> result == %s", recv, loc)))
				} else {
					ct.Ensures = append(ct.Ensures, cl("ensures", "set", fmt.Sprintf("%s != nil && %s != nil ==> result == %s", recv, loc, loc)))
					if fl.Def != nil {
						ct.Ensures = append(ct.Ensures, cl("ensures", "default", fmt.Sprintf("!(%s != nil && %s != nil) ==> result != nil", recv, loc)))
					}
				}
			default:
				// required scalar: the field itself, or the zero value on a nil receiver
				eqv := fmt.Sprintf("result == %s", loc)
				if isFloat(rt) {
					eqv = fmt.Sprintf("bits(result) == bits(%s)", loc)
				}
				ct.Ensures = append(ct.Ensures, cl("ensures", "value", fmt.Sprintf("%s != nil ==> %s", recv, eqv)))
				if e := scalarEq("result", rt, nil); e != "" {
					ct.Ensures = append(ct.Ensures, cl("ensures", "nilrecv", fmt.Sprintf("%s == nil ==> %s", recv, e)))
				}
			}
			add(ct)
		case name == "ToWire" && len(f.Params) == 1 && f.Signature.Results().Len() == 2:
			ii.addToWire(f, fields, kind, stt, named, prop, add)
		case name == "FromWire" && len(f.Params) == 2 && f.Signature.Results().Len() == 1:
			// the schema clauses that do not depend on routing: declared defaults are
			// filled in, a union has exactly one member (value routing is not an obligation)
			ct := newContract(f, prop)
			ct.RegionMerge = true
			ct.Requires = append(ct.Requires, cl("requires", "", recv+" != nil"))
			ct.Modifies = append(ct.Modifies, cl("modifies", "", "*"+recv))
			n := 0
			for i, fl := range fields {
				if fl.Def == nil {
					continue
				}
				switch stt.Field(i).Type().Underlying().(type) {
				case *types.Pointer, *types.Slice, *types.Map:
					ct.Ensures = append(ct.Ensures, cl("ensures", "default_"+fl.Name, fmt.Sprintf("err == nil ==> %s.%s != nil", recv, stt.Field(i).Name())))
					n++
				}
			}
			if kind == "union" && len(fields) > 0 {
				var terms []string
				for i := range fields {
					terms = append(terms, fmt.Sprintf("ite(%s.%s != nil, 1, 0)", recv, stt.Field(i).Name()))
				}
				ct.Ensures = append(ct.Ensures, cl("ensures", "arity", "err == nil ==> "+strings.Join(terms, " + ")+" == 1"))
				n++
			}
			// presence of required fields (existential invariants over the slice of wire
			// fields, addFromWirePresence) was built and dropped: the obligations took
			// 20-120 s each; FromWire presence is not an obligation
			if n > 0 {
				add(ct)
			}
		}
	}
	for _, f := range all {
		if f.Signature.Recv() == nil && strings.HasSuffix(f.Name(), "_Read") && strings.HasPrefix(f.Name(), "_") {
			if _, have := cs.ByFunc[f.String()]; !have {
				rc := newContract(f, prop)
				rc.Props = nil
				rc.Trusted = true
				// A-READ-PURE: a read helper builds a fresh value and leaves everything else alone
				rc.Modifies = append(rc.Modifies, cl("modifies", "", "nothing"))
				cs.ByFunc[f.String()] = rc
				cs.Order = append(cs.Order, rc)
			}
		}
	}
	ii.addWrapperContracts(cs, prop, all, add)
	ii.addDefaultCtorContracts(cs, prop, all, add)
	ii.addEncodeContracts(p, cs, prop, all, add)
	if ii.funcs == 0 {
		return fmt.Errorf("no accessor / ToWire of the regenerated corpus could be put under contract")
	}
	return nil
}

// addToWire: the wire struct produced for a struct-like value.
func (ii *InstInfo) addToWire(f *ssa.Function, fields []schemaField, kind string, stt *types.Struct, named *types.Named, prop string, add func(*Contract)) {
	recv := f.Params[0].Name()
	ct := newContract(f, prop)
	ct.RegionMerge = true
	ct.Requires = append(ct.Requires, cl("requires", "", recv+" != nil"))
	ct.Modifies = append(ct.Modifies, cl("modifies", "", "nothing"))
	present := make([]string, len(fields))
	for i, fl := range fields {
		gf := stt.Field(i)
		loc := recv + "." + gf.Name()
		switch gf.Type().Underlying().(type) {
		case *types.Pointer, *types.Slice, *types.Map:
			present[i] = "(" + loc + " != nil)"
			if fl.Required && fl.T.K == "list" {
				// a required list is always written (nil encodes as empty)
				present[i] = "true"
			}
		default:
			present[i] = "true"
		}
		if fl.Def != nil {
			// a field with a declared default is always written (the default when unset)
			present[i] = "true"
		}
	}
	count := func(upto int) string {
		var terms []string
		for j := 0; j < upto; j++ {
			if present[j] == "true" {
				terms = append(terms, "1")
			} else {
				terms = append(terms, fmt.Sprintf("ite(%s, 1, 0)", present[j]))
			}
		}
		if len(terms) == 0 {
			return "0"
		}
		return strings.Join(terms, " + ")
	}
	nOpt := 0
	for _, pr := range present {
		if pr != "true" {
			nOpt++
		}
	}
	// up to 6 conditionally written fields: enumerate the paths (every index is a
	// constant on each path); beyond that the paths are merged and the per-field
	// clauses (symbolic indices into the field array) are not obligations
	perField := nOpt <= 6
	ct.RegionMerge = !perField
	if !perField {
		ii.skipped = append(ii.skipped, fmt.Sprintf("%s.ToWire: %d conditionally written fields: per-field clauses outside reach (type, count, required and arity clauses kept)", named.Obj().Name(), nOpt))
	}
	F := "result0.tstruct.Fields"
	ct.Ensures = append(ct.Ensures,
		cl("ensures", "typ", "err == nil ==> result0.typ == 12"),
		cl("ensures", "count", fmt.Sprintf("err == nil ==> len(%s) == %s", F, count(len(fields)))))
	for i, fl := range fields {
		gf := stt.Field(i)
		loc := recv + "." + gf.Name()
		at := fmt.Sprintf("%s[%s]", F, count(i))
		guard := "err == nil"
		if present[i] != "true" {
			guard += " && " + present[i]
		}
		if perField {
			ct.Ensures = append(ct.Ensures, cl("ensures", "hdr_"+fl.Name, fmt.Sprintf("%s ==> %s.ID == %d && %s.Value.typ == %d", guard, at, fl.ID, at, fl.Code)))
		}
		val := loc
		gt := gf.Type()
		if pt, ok := gt.Underlying().(*types.Pointer); ok {
			if _, isStruct := pt.Elem().Underlying().(*types.Struct); !isStruct {
				val = "(*" + loc + ")"
				gt = pt.Elem()
			}
		}
		if fl.Def != nil {
			// the value written is the field or, when unset, the declared default:
			// which of the two is not an obligation here (header clause kept)
			val = ""
		}
		content := ""
		if val == "" {
			fl.T = &tdesc{K: "other"}
		}
		switch fl.T.K {
		case "bool":
			content = fmt.Sprintf("((%s.Value.tnumber != 0) <==> %s)", at, val)
		case "i8":
			content = fmt.Sprintf("int8(%s.Value.tnumber) == int8(%s)", at, val)
		case "i16":
			content = fmt.Sprintf("int16(%s.Value.tnumber) == int16(%s)", at, val)
		case "i32", "enum":
			content = fmt.Sprintf("int32(%s.Value.tnumber) == int32(%s)", at, val)
		case "i64":
			content = fmt.Sprintf("int64(%s.Value.tnumber) == int64(%s)", at, val)
		case "double":
			content = fmt.Sprintf("%s.Value.tnumber == bits(%s)", at, val)
		case "string":
			content = fmt.Sprintf("len(%s.Value.tbinary) == len(%s) && forall(k, 0, len(%s), %s.Value.tbinary[k] == %s[k])", at, val, val, at, val)
		case "binary":
			content = fmt.Sprintf("len(%s.Value.tbinary) == len(%s) && forall(k, 0, len(%s), %s.Value.tbinary[k] == %s[k])", at, val, val, at, val)
		}
		if content != "" && perField {
			ct.Ensures = append(ct.Ensures, cl("ensures", "val_"+fl.Name, fmt.Sprintf("%s ==> %s", guard, content)))
		}
		// a required field of reference type that is nil cannot be encoded
		if fl.Required && present[i] != "true" && kind != "union" {
			ct.Ensures = append(ct.Ensures, cl("ensures", "required_"+fl.Name, fmt.Sprintf("%s == nil ==> err != nil", loc)))
		}
		_ = gt
	}
	if kind == "union" && len(fields) > 0 {
		ct.Ensures = append(ct.Ensures, cl("ensures", "arity", fmt.Sprintf("err == nil ==> %s == 1", count(len(fields)))))
	}
	add(ct)
}

func wireCode(k string) int {
	switch k {
	case "bool":
		return 2
	case "i8":
		return 3
	case "double":
		return 4
	case "i16":
		return 6
	case "i32", "enum":
		return 8
	case "i64":
		return 10
	case "string", "binary":
		return 11
	case "struct":
		return 12
	case "map":
		return 13
	case "set":
		return 14
	case "list":
		return 15
	}
	return 0
}

// scalarContent: the wire value w carries the Go value val of Thrift kind k.
func scalarContent(k, w, val string) string {
	switch k {
	case "bool":
		return fmt.Sprintf("((%s.tnumber != 0) <==> %s)", w, val)
	case "i8":
		return fmt.Sprintf("int8(%s.tnumber) == int8(%s)", w, val)
	case "i16":
		return fmt.Sprintf("int16(%s.tnumber) == int16(%s)", w, val)
	case "i32", "enum":
		return fmt.Sprintf("int32(%s.tnumber) == int32(%s)", w, val)
	case "i64":
		return fmt.Sprintf("int64(%s.tnumber) == int64(%s)", w, val)
	case "double":
		return fmt.Sprintf("%s.tnumber == bits(%s)", w, val)
	case "string", "binary":
		return fmt.Sprintf("len(%s.tbinary) == len(%s) && forall(k, 0, len(%s), %s.tbinary[k] == %s[k])", w, val, val, w, val)
	}
	return ""
}

// typedefOrEnumRecv: the resolved Thrift type behind a method on a typedef or enum type.
func (ii *InstInfo) typedefOrEnumRecv(f *ssa.Function) (*tdesc, types.Type, bool) {
	rt := f.Signature.Recv().Type()
	base := rt
	if pt, ok := rt.(*types.Pointer); ok {
		base = pt.Elem()
	}
	named, ok := base.(*types.Named)
	if !ok || named.Obj().Pkg() == nil {
		return nil, nil, false
	}
	pkgBase := filepath.Base(named.Obj().Pkg().Path())
	nn := normName(named.Obj().Name())
	if _, isStruct := ii.structs[pkgBase][nn]; isStruct {
		return nil, nil, false
	}
	if ii.enums[pkgBase][nn] {
		return &tdesc{K: "enum"}, rt, true
	}
	if d, ok := ii.typedefs[pkgBase][nn]; ok && d != nil {
		return d, rt, true
	}
	return nil, nil, false
}

// defLiteral: a declared scalar default as a contract-language expression of Go type t ("" if not expressible).
func defLiteral(t types.Type, d *defv) string {
	b, ok := t.Underlying().(*types.Basic)
	if !ok || d == nil {
		return ""
	}
	switch {
	case b.Info()&types.IsBoolean != 0 && d.K == "bool":
		if d.B {
			return "true"
		}
		return "false"
	case b.Info()&types.IsInteger != 0 && d.K == "int":
		return fmt.Sprintf("%d", d.I)
	}
	return ""
}

// ---------------------------------------------------------------------------
// Streaming Encode (C01): byte-level postconditions over the stream.Writer
// ghost (wout/wlen). For a struct-like value the bytes written are, for every
// written field in declaration order, the 3-byte header (wire type of the
// schema's type, field id) followed by the value's bytes (scalars, strings,
// binaries, enums byte-exact; nested values: exactly encsz_<type>(value)
// bytes, the size relation of the callee), then the stop byte; nothing written
// earlier changes. encsz_<struct> is defined by the sum (definitional axiom).

func isEncodeHelper(f *ssa.Function) bool {
	sig := f.Signature
	if sig.Recv() != nil || sig.Params().Len() != 2 || sig.Results().Len() != 1 {
		return false
	}
	n, ok := sig.Params().At(1).Type().(*types.Named)
	return ok && n.Obj().Name() == "Writer" && n.Obj().Pkg() != nil && strings.HasSuffix(n.Obj().Pkg().Path(), "protocol/stream")
}

// encSize: number of bytes the value expression val of node n occupies on the wire.
func (ii *InstInfo) encSize(n eqNode, val string) string {
	switch n.d.K {
	case "bool", "i8":
		return "1"
	case "i16":
		return "2"
	case "i32", "enum":
		return "4"
	case "i64", "double":
		return "8"
	case "string", "binary":
		return fmt.Sprintf("(4 + len(%s))", val)
	}
	return fmt.Sprintf("ufun(encsz_%s, int64, %s)", ii.eqID(n), val)
}

// encContent: the bytes at position p of the writer w are the encoding of the scalar val.
func encContent(k, w, p, val string) string {
	switch k {
	case "bool":
		return fmt.Sprintf("(%s ==> wout(%s)[%s] == 1) && (!%s ==> wout(%s)[%s] == 0)", val, w, p, val, w, p)
	case "i8":
		return fmt.Sprintf("int8(wout(%s)[%s]) == int8(%s)", w, p, val)
	case "i16":
		return fmt.Sprintf("int16(be16at(wout(%s), %s)) == int16(%s)", w, p, val)
	case "i32", "enum":
		return fmt.Sprintf("int32(be32at(wout(%s), %s)) == int32(%s)", w, p, val)
	case "i64":
		return fmt.Sprintf("int64(be64at(wout(%s), %s)) == int64(%s)", w, p, val)
	case "double":
		return fmt.Sprintf("be64at(wout(%s), %s) == bits(%s)", w, p, val)
	case "string", "binary":
		return fmt.Sprintf("(len(%s) <= 2147483647 ==> int64(int32(be32at(wout(%s), %s))) == len(%s)) && forall(k, 0, len(%s), wout(%s)[%s + 4 + k] == %s[k])", val, w, p, val, val, w, p, val)
	}
	return ""
}

const validW = "wlen(sw) >= 0 && wlen(sw) <= 4611686018427387904"
const prefixW = "wlen(sw) >= q0 && wlen(sw) <= 4611686018427387904 && forall(j, 0, q0, wout(sw)[j] == old(wout(sw))[j])"

func (ii *InstInfo) addEncodeContracts(p *Program, cs *ContractSet, prop string, all []*ssa.Function, add func(*Contract)) {
	assigned := map[*ssa.Function]eqNode{}
	var queue []*ssa.Function
	typedefFn := map[*ssa.Function]eqNode{}
	enumFn := map[*ssa.Function]bool{}
	for _, f := range all {
		if f.Name() != "Encode" || f.Signature.Recv() == nil || len(f.Params) != 2 {
			continue
		}
		if _, _, stt, named, ok := ii.schemaOf(f); ok && stt != nil {
			pkgBase := filepath.Base(named.Obj().Pkg().Path())
			assigned[f] = eqNode{d: &tdesc{K: "struct", Name: named.Obj().Name(), File: pkgBase}, gt: f.Signature.Recv().Type()}
			queue = append(queue, f)
			continue
		}
		if d, gt, ok := ii.typedefOrEnumRecv(f); ok {
			if d.K == "enum" && d.Name == "" {
				enumFn[f] = true
			} else {
				typedefFn[f] = eqNode{d: d, gt: gt}
			}
		}
	}
	scan := func(f *ssa.Function, kids []eqNode) {
		for _, b := range f.Blocks {
			for _, in := range b.Instrs {
				c, ok := in.(ssa.CallInstruction)
				if !ok {
					continue
				}
				g, ok := c.Common().Value.(*ssa.Function)
				if !ok || !isCorpusFn(g) || !isEncodeHelper(g) {
					continue
				}
				if _, done := assigned[g]; done {
					continue
				}
				pt := g.Signature.Params().At(0).Type()
				var match *eqNode
				conflict := false
				for i := range kids {
					k := kids[i]
					if k.gt == nil || !types.Identical(k.gt, pt) {
						continue
					}
					if match != nil && ii.nodeKey(*match) != ii.nodeKey(k) {
						conflict = true
					}
					match = &kids[i]
				}
				if match == nil || conflict {
					continue
				}
				assigned[g] = *match
				queue = append(queue, g)
			}
		}
	}
	// deterministic discovery order
	var tdOrder []*ssa.Function
	for f := range typedefFn {
		tdOrder = append(tdOrder, f)
	}
	sort.Slice(tdOrder, func(i, j int) bool { return tdOrder[i].String() < tdOrder[j].String() })
	for _, f := range tdOrder {
		n := typedefFn[f]
		scan(f, []eqNode{{d: n.d, gt: n.gt.Underlying()}})
	}
	for len(queue) > 0 {
		f := queue[0]
		queue = queue[1:]
		kids := ii.eqChildren(assigned[f])
		// optional scalars are written through the dereferenced value
		for i, k := range kids {
			if k.opt {
				kids[i] = eqNode{d: k.d, gt: k.gt.Underlying().(*types.Pointer).Elem()}
			}
		}
		scan(f, kids)
	}
	var fns []*ssa.Function
	for f := range assigned {
		fns = append(fns, f)
	}
	for f := range typedefFn {
		fns = append(fns, f)
	}
	for f := range enumFn {
		fns = append(fns, f)
	}
	sort.Slice(fns, func(i, j int) bool { return fns[i].String() < fns[j].String() })
	built := map[*ssa.Function]*Contract{}
	for _, f := range fns {
		ct := newContract(f, prop)
		ct.Requires = append(ct.Requires, cl("requires", "", validW))
		ct.Lets = append(ct.Lets, cl("let", "", "q0 = wlen(sw)"))
		ct.Modifies = append(ct.Modifies, cl("modifies", "", "wout(sw), wlen(sw)"))
		ct.Ensures = append(ct.Ensures, cl("ensures", "prefix", prefixW))
		if len(f.Params) != 2 || f.Params[1].Name() != "sw" {
			continue
		}
		val := f.Params[0].Name()
		switch {
		case enumFn[f]:
			ct.Ensures = append(ct.Ensures, cl("ensures", "bytes", fmt.Sprintf("err == nil ==> wlen(sw) == q0 + 4 && %s", encContent("i32", "sw", "q0", val))))
		case typedefFn[f].d != nil:
			n := typedefFn[f]
			inner := eqNode{d: n.d, gt: n.gt}
			if _, isPtr := n.gt.(*types.Pointer); isPtr {
				ct.Requires = append(ct.Requires, cl("requires", "", val+" != nil"))
			}
			ct.Ensures = append(ct.Ensures, cl("ensures", "size", fmt.Sprintf("err == nil ==> wlen(sw) == q0 + %s", ii.encSize(inner, val))))
			if c := encContent(n.d.K, "sw", "q0", val); c != "" {
				ct.Ensures = append(ct.Ensures, cl("ensures", "bytes", "err == nil ==> "+c))
			}
		default:
			n := assigned[f]
			if n.d.K == "struct" {
				if !ii.encodeStruct(f, n, ct, cs) {
					continue
				}
			} else {
				ii.encodeContainer(f, n, ct, val)
			}
		}
		built[f] = ct
	}
	// functions whose corpus callees have no contract are outside reach
	changed := true
	for changed {
		changed = false
		for f := range built {
			for _, bl := range f.Blocks {
				for _, in := range bl.Instrs {
					c, ok := in.(ssa.CallInstruction)
					if !ok {
						continue
					}
					g, ok := c.Common().Value.(*ssa.Function)
					if !ok || !isCorpusFn(g) {
						continue
					}
					if _, ok := built[g]; ok {
						continue
					}
					if _, ok := cs.ByFunc[g.String()]; ok {
						continue
					}
					ii.skipped = append(ii.skipped, fmt.Sprintf("%s: calls %s, which has no encoding contract", shortFn(f.String()), shortFn(g.String())))
					delete(built, f)
					changed = true
				}
			}
		}
	}
	var order []*ssa.Function
	for f := range built {
		order = append(order, f)
	}
	sort.Slice(order, func(i, j int) bool { return order[i].String() < order[j].String() })
	for _, f := range order {
		add(built[f])
	}
}

// encodeStruct: byte layout of a struct-like value.
func (ii *InstInfo) encodeStruct(f *ssa.Function, n eqNode, ct *Contract, cs *ContractSet) bool {
	fields, kind, stt, named, ok := ii.schemaOf(f)
	if !ok {
		return false
	}
	recv := f.Params[0].Name()
	ct.Requires = append(ct.Requires, cl("requires", "", recv+" != nil"))
	present := make([]string, len(fields))
	vals := make([]string, len(fields))
	nodes := make([]eqNode, len(fields))
	nOpt := 0
	for i, fl := range fields {
		gf := stt.Field(i)
		loc := recv + "." + gf.Name()
		vals[i] = loc
		nodes[i] = eqNode{d: fl.T, gt: gf.Type()}
		present[i] = "true"
		switch tt := gf.Type().Underlying().(type) {
		case *types.Pointer:
			present[i] = "(" + loc + " != nil)"
			if _, isStruct := tt.Elem().Underlying().(*types.Struct); !isStruct || fl.T.K != "struct" {
				vals[i] = "(*" + loc + ")"
				nodes[i] = eqNode{d: fl.T, gt: tt.Elem()}
			}
		case *types.Slice, *types.Map:
			present[i] = "(" + loc + " != nil)"
			if fl.Required && fl.T.K == "list" {
				present[i] = "true"
			}
		}
		if fl.Def != nil {
			present[i] = "true"
			vals[i] = "" // the field or its default: which one is not an obligation here
		}
		if present[i] != "true" {
			nOpt++
		}
	}
	hasDefault := false
	for _, fl := range fields {
		if fl.Def != nil {
			hasDefault = true
		}
	}
	// Byte-level reasoning about a writer goes through the frame condition of
	// every later write (quantified, over 64-bit positions); with conditional
	// writes the solvers do not finish in time. Only small all-required structs
	// are verified; the others get an assumed size/prefix contract so that their
	// users can still be verified, and are listed as outside reach.
	varWidth := false
	for _, fl := range fields {
		if fl.T.K == "string" || fl.T.K == "binary" {
			varWidth = true // sizes that depend on len(): the sum obligations took 30-50 s
		}
	}
	perField := nOpt == 0 && !hasDefault && !varWidth && len(fields) <= 3 && kind != "union"
	if !perField {
		ii.skipped = append(ii.skipped, fmt.Sprintf("%s.Encode: conditional writes, string/binary fields or more than 3 fields: byte-level clauses outside reach (contract assumed for its callers)", named.Obj().Name()))
		ct.Trusted = true
		ct.Props = nil
		ct.Ensures = append(ct.Ensures, cl("ensures", "sym", fmt.Sprintf("err == nil ==> wlen(sw) == q0 + ufun(encsz_%s, int64, %s)", ii.eqID(n), recv)))
		return true
	}
	// position of field k: q0 + sum over earlier written fields of 3 + size
	pos := func(k int) string {
		terms := []string{"q0"}
		for j := 0; j < k; j++ {
			sz := fmt.Sprintf("(3 + %s)", ii.encSize(nodes[j], vals[j]))
			if present[j] == "true" {
				terms = append(terms, sz)
			} else {
				terms = append(terms, fmt.Sprintf("ite(%s, %s, 0)", present[j], sz))
			}
		}
		return strings.Join(terms, " + ")
	}
	if perField && !hasDefault {
		for i, fl := range fields {
			guard := "err == nil"
			if present[i] != "true" {
				guard += " && " + present[i]
			}
			pk := pos(i)
			// Byte-level facts about early fields have to survive the frame condition
			// of every later write (one quantifier instantiation per byte and write):
			// affordable only for small structs; the size clause below covers all.
			if len(fields) <= 3 {
				ct.Ensures = append(ct.Ensures, cl("ensures", "hdr_"+fl.Name, fmt.Sprintf("%s ==> int8(wout(sw)[%s]) == %d && int16(be16at(wout(sw), %s + 1)) == %d", guard, pk, fl.Code, pk, fl.ID)))
			}
			if c := encContent(fl.T.K, "sw", "("+pk+" + 3)", vals[i]); c != "" && len(fields) <= 1 {
				ct.Ensures = append(ct.Ensures, cl("ensures", "val_"+fl.Name, fmt.Sprintf("%s ==> %s", guard, c)))
			}
		}
		total := pos(len(fields)) + " + 1"
		ct.Ensures = append(ct.Ensures, cl("ensures", "size", fmt.Sprintf("err == nil ==> wlen(sw) == %s", total)))
		id := ii.eqID(n)
		mn := "def_encsz_" + id
		if _, ok := cs.Macros[mn]; !ok {
			// the size relation of the struct, unfolded once
			body := strings.ReplaceAll(strings.ReplaceAll(total, "q0 + ", ""), recv+".", "a.")
			if total == "q0 + 1" {
				body = "1"
			}
			cs.Macros[mn] = &Macro{Kind: "axiom", Params: []string{"a"}, Body: fmt.Sprintf("ufun(encsz_%s, int64, a) == %s", id, body)}
		}
		// encsz_<struct>(v) is by definition the sum that post(size) establishes: the
		// identification is handed to callers as an assumed clause (definitional)
		symc := cl("ensures", "sym", fmt.Sprintf("err == nil ==> wlen(sw) == q0 + ufun(encsz_%s, int64, %s)", id, recv))
		symc.Assumed = true
		ct.Ensures = append(ct.Ensures, symc)
	} else {
		sym := cl("ensures", "sym", fmt.Sprintf("err == nil ==> wlen(sw) == q0 + ufun(encsz_%s, int64, %s)", ii.eqID(n), recv))
		sym.Assumed = true
		ct.Ensures = append(ct.Ensures, sym)
	}
	ct.Ensures = append(ct.Ensures, cl("ensures", "stop", "err == nil ==> wlen(sw) >= q0 + 1 && wout(sw)[wlen(sw) - 1] == 0"))
	for i, fl := range fields {
		if fl.Required && fl.Def == nil && present[i] != "true" && kind != "union" {
			ct.Ensures = append(ct.Ensures, cl("ensures", "required_"+fl.Name, fmt.Sprintf("%s.%s == nil ==> err != nil", recv, stt.Field(i).Name())))
		}
	}
	if kind == "union" && len(fields) > 0 {
		var terms []string
		for _, pr := range present {
			terms = append(terms, fmt.Sprintf("ite(%s, 1, 0)", pr))
		}
		ct.Ensures = append(ct.Ensures, cl("ensures", "arity", fmt.Sprintf("err == nil ==> %s == 1", strings.Join(terms, " + "))))
	}
	return true
}

// encodeContainer: header of the container's own element/key/value types and size; nothing earlier changes;
// nil elements of struct type are rejected. The total size relation is an assumed clause.
func (ii *InstInfo) encodeContainer(f *ssa.Function, n eqNode, ct *Contract, val string) {
	loops := findLoops(f)
	inv := "wlen(sw) >= q0 && wlen(sw) <= 4611686018427387904 && forall(j, 0, q0, wout(sw)[j] == old(wout(sw))[j])"
	switch n.d.K {
	case "list", "set":
		el := n.d.Elem
		ct.Ensures = append(ct.Ensures, cl("ensures", "hdr", fmt.Sprintf("err == nil ==> wlen(sw) >= q0 + 5 && int8(wout(sw)[q0]) == %d && (0 <= len(%s) && len(%s) <= 2147483647 ==> int64(int32(be32at(wout(sw), q0 + 1))) == len(%s))", wireCode(el.K), val, val, val)))
		hdrKept := fmt.Sprintf("wlen(sw) >= q0 + 5 && int8(wout(sw)[q0]) == %d && (0 <= len(%s) && len(%s) <= 2147483647 ==> int64(int32(be32at(wout(sw), q0 + 1))) == len(%s))", wireCode(el.K), val, val, val)
		for k := 1; k <= len(loops); k++ {
			ct.LoopInv[k] = []*Clause{cl("invariant", "prefix", inv), cl("invariant", "hdr", hdrKept)}
		}
		if et := elemType(n.gt); et != nil && len(loops) == 1 {
			if pt, ok := et.Underlying().(*types.Pointer); ok {
				if _, isStruct := pt.Elem().Underlying().(*types.Struct); isStruct {
					ct.LoopInv[1] = append(ct.LoopInv[1], cl("invariant", "nonnil", fmt.Sprintf("ridx >= -1 && ridx < len(%s) && forall(j, 0, ridx + 1, %s[j] != nil)", val, val)))
					ct.Ensures = append(ct.Ensures, cl("ensures", "nonnil", fmt.Sprintf("err == nil ==> forall(j, 0, len(%s), %s[j] != nil)", val, val)))
				}
			}
		}
	case "map":
		ct.Ensures = append(ct.Ensures, cl("ensures", "hdr", fmt.Sprintf("err == nil ==> wlen(sw) >= q0 + 6 && int8(wout(sw)[q0]) == %d && int8(wout(sw)[q0 + 1]) == %d && (0 <= len(%s) && len(%s) <= 2147483647 ==> int64(int32(be32at(wout(sw), q0 + 2))) == len(%s))", wireCode(n.d.Key.K), wireCode(n.d.Val.K), val, val, val)))
		hdrKept := fmt.Sprintf("wlen(sw) >= q0 + 6 && int8(wout(sw)[q0]) == %d && int8(wout(sw)[q0 + 1]) == %d && (0 <= len(%s) && len(%s) <= 2147483647 ==> int64(int32(be32at(wout(sw), q0 + 2))) == len(%s))", wireCode(n.d.Key.K), wireCode(n.d.Val.K), val, val, val)
		for k := 1; k <= len(loops); k++ {
			ct.LoopInv[k] = []*Clause{cl("invariant", "prefix", inv), cl("invariant", "hdr", hdrKept)}
		}
	}
	// reference-typed map values must not be nil (nil element inside a container is an error)
	if mt, ok := n.gt.Underlying().(*types.Map); ok && n.d.K == "map" && len(loops) == 1 {
		switch mt.Elem().Underlying().(type) {
		case *types.Pointer, *types.Slice, *types.Map:
			ct.LoopInv[1] = append(ct.LoopInv[1], cl("invariant", "nonnilvals", fmt.Sprintf("forallkey(k, %s, visited(k) ==> %s[k] != nil)", val, val)))
			ct.Ensures = append(ct.Ensures, cl("ensures", "nonnilvals", fmt.Sprintf("err == nil ==> forallkey(k, %s, has(%s, k) ==> %s[k] != nil)", val, val, val)))
		}
	}
	if et := elemType(n.gt); et != nil && (n.d.K == "list" || n.d.K == "set") && len(loops) == 1 {
		switch et.Underlying().(type) {
		case *types.Slice, *types.Map:
			ct.LoopInv[1] = append(ct.LoopInv[1], cl("invariant", "nonnil", fmt.Sprintf("ridx >= -1 && ridx < len(%s) && forall(j, 0, ridx + 1, %s[j] != nil)", val, val)))
			ct.Ensures = append(ct.Ensures, cl("ensures", "nonnil", fmt.Sprintf("err == nil ==> forall(j, 0, len(%s), %s[j] != nil)", val, val)))
		}
	}
	sym := cl("ensures", "sym", fmt.Sprintf("err == nil ==> wlen(sw) == q0 + ufun(encsz_%s, int64, %s)", ii.eqID(n), val))
	sym.Assumed = true
	ct.Ensures = append(ct.Ensures, sym)
}

// addDefaultCtorContracts: Default_<Struct>() returns a fresh value in which every
// field with a declared default is set (scalars: to exactly the declared literal)
// and every other field is unset.
func (ii *InstInfo) addDefaultCtorContracts(cs *ContractSet, prop string, all []*ssa.Function, add func(*Contract)) {
	for _, f := range all {
		if !strings.HasPrefix(f.Name(), "Default_") || f.Signature.Recv() != nil || len(f.Params) != 0 || f.Signature.Results().Len() != 1 {
			continue
		}
		pt, ok := f.Signature.Results().At(0).Type().(*types.Pointer)
		if !ok {
			continue
		}
		named, ok := pt.Elem().(*types.Named)
		if !ok || named.Obj().Pkg() == nil {
			continue
		}
		stt, ok := named.Underlying().(*types.Struct)
		if !ok {
			continue
		}
		fields, ok := ii.structs[filepath.Base(named.Obj().Pkg().Path())][normName(named.Obj().Name())]
		if !ok || len(fields) != stt.NumFields() {
			continue
		}
		ct := newContract(f, prop)
		ct.Modifies = append(ct.Modifies, cl("modifies", "", "nothing"))
		ct.Ensures = append(ct.Ensures, cl("ensures", "fresh", "result != nil && fresh(result)"))
		for i, fl := range fields {
			gf := stt.Field(i)
			loc := "result." + gf.Name()
			if fl.Def == nil {
				switch gf.Type().Underlying().(type) {
				case *types.Pointer, *types.Slice, *types.Map:
					ct.Ensures = append(ct.Ensures, cl("ensures", "unset_"+fl.Name, loc+" == nil"))
				}
				continue
			}
			switch tt := gf.Type().Underlying().(type) {
			case *types.Pointer:
				ct.Ensures = append(ct.Ensures, cl("ensures", "set_"+fl.Name, loc+" != nil"))
				if e := scalarEq("(*"+loc+")", tt.Elem(), fl.Def); e != "" {
					ct.Ensures = append(ct.Ensures, cl("ensures", "val_"+fl.Name, e))
				}
			case *types.Slice, *types.Map:
				ct.Ensures = append(ct.Ensures, cl("ensures", "set_"+fl.Name, loc+" != nil"))
			}
		}
		add(ct)
	}
}

// addFromWirePresence: schema-evolution clauses of FromWire (C05, also C01): success
// implies that every required field occurred with its id and declared wire
// type; the <name>IsSet flags are located by name; the wire value is not
// modified (the read helpers are assumed to leave wire values alone: A-READ-PURE).
func (ii *InstInfo) addFromWirePresence(f *ssa.Function, fields []schemaField, ct *Contract) int {
	locals := map[string]bool{}
	for _, b := range f.Blocks {
		for _, in := range b.Instrs {
			if a, ok := in.(*ssa.Alloc); ok && strings.HasSuffix(a.Comment, "IsSet") {
				locals[a.Comment] = true
			}
		}
	}
	if len(findLoops(f)) != 1 || len(f.Params) != 2 {
		return 0
	}
	w := f.Params[1].Name()
	F := w + ".tstruct.Fields"
	n := 0
	ct.LoopInv[1] = append(ct.LoopInv[1], cl("invariant", "input", fmt.Sprintf("ridx >= -1 && ridx < len(%s)", F)))
	for _, fl := range fields {
		if !fl.Required {
			continue
		}
		match := fmt.Sprintf("%s[j].ID == %d && %s[j].Value.typ == %d", F, fl.ID, F, fl.Code)
		v := fl.Name + "IsSet"
		ct.Ensures = append(ct.Ensures, cl("ensures", "required_"+fl.Name, fmt.Sprintf("err == nil ==> exists(j, 0, len(%s), %s)", F, match)))
		n++
		if locals[v] {
			ct.LoopInv[1] = append(ct.LoopInv[1], cl("invariant", "seen_"+fl.Name, fmt.Sprintf("%s <==> exists(j, 0, ridx + 1, %s)", v, match)))
		}
	}
	return n
}

// addWrapperContracts: the ValueList / MapItemList views that ToWire wraps
// containers in (named slice / map types with ValueType, KeyType, Size,
// ForEach). Expected type codes come from the Go element types where these are
// unambiguous (scalars, strings, byte slices, struct pointers). ForEach: the
// callback receives, for the element at the current index, a wire value of the
// element's type carrying the element's value (obligation at the call).
func (ii *InstInfo) addWrapperContracts(cs *ContractSet, prop string, all []*ssa.Function, add func(*Contract)) {
	scalarK := func(t types.Type) string {
		if t == nil {
			return ""
		}
		switch tt := t.Underlying().(type) {
		case *types.Basic:
			switch tt.Kind() {
			case types.Bool:
				return "bool"
			case types.Int8:
				return "i8"
			case types.Int16:
				return "i16"
			case types.Int32:
				return "i32"
			case types.Int64:
				return "i64"
			case types.Float64:
				return "double"
			case types.String:
				return "string"
			}
		case *types.Slice:
			if b, ok := tt.Elem().Underlying().(*types.Basic); ok && b.Kind() == types.Uint8 {
				return "binary"
			}
		}
		return ""
	}
	for _, f := range all {
		if f.Signature.Recv() == nil || len(f.Params) == 0 {
			continue
		}
		named, ok := f.Signature.Recv().Type().(*types.Named)
		if !ok || !(strings.HasSuffix(named.Obj().Name(), "_ValueList") || strings.HasSuffix(named.Obj().Name(), "_MapItemList")) {
			continue
		}
		recv := f.Params[0].Name()
		var elem, key, val types.Type
		switch tt := named.Underlying().(type) {
		case *types.Slice:
			elem = tt.Elem()
			if k, v := pairTypes(named.Underlying()); k != nil && strings.HasSuffix(named.Obj().Name(), "_MapItemList") {
				key, val, elem = k, v, nil
			}
		case *types.Map:
			if strings.HasSuffix(named.Obj().Name(), "_MapItemList") {
				key, val = tt.Key(), tt.Elem()
			} else {
				elem = tt.Key()
			}
		}
		ct := newContract(f, prop)
		switch f.Name() {
		case "Size":
			if recv == "" || f.Signature.Results().Len() != 1 {
				continue
			}
			ct.Pure = true
			ct.Ensures = append(ct.Ensures, cl("ensures", "size", fmt.Sprintf("result == len(%s)", recv)))
			add(ct)
		case "ValueType":
			t := elem
			if val != nil {
				t = val
			}
			if code := goWireCode(t); code != 0 {
				ct.Pure = true
				ct.Ensures = append(ct.Ensures, cl("ensures", "code", fmt.Sprintf("int8(result) == %d", code)))
				add(ct)
			}
		case "KeyType":
			if code := goWireCode(key); code != 0 {
				ct.Pure = true
				ct.Ensures = append(ct.Ensures, cl("ensures", "code", fmt.Sprintf("int8(result) == %d", code)))
				add(ct)
			}
		case "ForEach":
			_, isSlice := named.Underlying().(*types.Slice)
			k := scalarK(elem)
			if isSlice && k == "" && goWireCode(elem) == 12 && len(f.Params) == 2 && recv != "" && len(findLoops(f)) == 1 {
				// list / set of structs: every element is converted with its own ToWire (a wire
				// struct) and a nil element is an error
				pc := newContract(f, prop)
				pc.Func = f.String() + "." + f.Params[1].Name()
				pc.Requires = append(pc.Requires, cl("requires", "type", "arg0.typ == 12"))
				pc.Modifies = append(pc.Modifies, cl("modifies", "", "all"))
				pc.Ensures = append(pc.Ensures, cl("ensures", "", fmt.Sprintf("arrayof(%s) == old(arrayof(%s))", recv, recv)))
				cs.Field[pc.Func] = pc
				ct.Modifies = append(ct.Modifies, cl("modifies", "", "all"))
				ct.Lets = append(ct.Lets, cl("let", "", "a0 = arrayof("+recv+")"))
				ct.LoopInv[1] = []*Clause{cl("invariant", "", fmt.Sprintf("ridx >= -1 && ridx < len(%s) && arrayof(%s) == a0 && forall(j, 0, ridx + 1, %s[j] != nil)", recv, recv, recv))}
				ct.Ensures = append(ct.Ensures, cl("ensures", "nonnil", fmt.Sprintf("err == nil ==> forall(j, 0, len(%s), old(%s[j]) != nil)", recv, recv)))
				add(ct)
				continue
			}
			if !isSlice || k == "" || len(f.Params) != 2 || recv == "" || len(findLoops(f)) != 1 {
				continue
			}
			// callback: element at the current index, as a wire value of the element's type
			pc := newContract(f, prop)
			pc.Func = f.String() + "." + f.Params[1].Name()
			pc.Requires = append(pc.Requires,
				cl("requires", "type", fmt.Sprintf("arg0.typ == %d", goWireCode(elem))),
				cl("requires", "value", scalarContent(k, "arg0", recv+"[ridx]")))
			pc.Modifies = append(pc.Modifies, cl("modifies", "", "all"))
			cs.Field[pc.Func] = pc
			ct.Modifies = append(ct.Modifies, cl("modifies", "", "all"))
			ct.LoopInv[1] = []*Clause{cl("invariant", "", fmt.Sprintf("ridx >= -1 && ridx < len(%s)", recv))}
			ct.ErrsFromCallees = true
			add(ct)
		}
	}
}
