package main

// Structural-equality contracts for the emitted Equals code (C14).
//
// For every Thrift type of the regenerated corpus the schema (read with
// /repo's own compile package, never from the templates) determines a
// structural equality relation:
//
//	scalars, strings, enums   a == b (IEEE == on doubles)
//	binary                    eq_binary(a, b)            (bytes.Equal, assumed)
//	struct S                  both nil, or both non-nil and every field equal;
//	                          an optional field is equal when both are unset or
//	                          both are set and equal
//	list<T>                   same length and pointwise equal, in order
//	set<T>  (Go map)          same members
//	map<K,V> (Go map)         same keys, equal values under every key
//	set<T> / map<K,V> (Go slice, unhashable element / key)
//	                          same length and every item of one side has an
//	                          equal item on the other side (both directions)
//
// Each relation is an uninterpreted symbol eq_<id> with a definitional axiom
// (one unfolding, children as symbols). The emitted function for a type must
// return exactly the definition (ensures def) and therefore the symbol
// (ensures sym, which is what callers see). Which emitted helper compares
// which type is discovered from the call structure starting at the methods
// (receiver type = schema type), not from the helpers' names.

import (
	"fmt"
	"go/types"
	"path/filepath"
	"sort"
	"strings"

	"golang.org/x/tools/go/ssa"
)

type eqNode struct {
	d   *tdesc
	gt  types.Type // Go type of the two compared values
	opt bool       // gt is a pointer to a non-struct value: unset/set wrapper
}

func isPrimK(k string) bool {
	switch k {
	case "bool", "i8", "i16", "i32", "i64", "double", "string", "enum":
		return true
	}
	return false
}

// eqShape: how Go represents the container.
func eqShape(gt types.Type) string {
	switch t := gt.Underlying().(type) {
	case *types.Map:
		return "m"
	case *types.Slice:
		_ = t
		return "s"
	}
	return ""
}

func (ii *InstInfo) eqID(n eqNode) string {
	d := n.d
	switch d.K {
	case "struct":
		return "st_" + d.File + "_" + normName(d.Name)
	case "binary":
		return "binary"
	case "list":
		el := eqNode{d: d.Elem, gt: elemType(n.gt)}
		return "list_" + ii.eqID(el)
	case "set":
		if eqShape(n.gt) == "m" {
			return "setm_" + ii.eqID(eqNode{d: d.Elem, gt: n.gt.Underlying().(*types.Map).Key()})
		}
		return "sets_" + ii.eqID(eqNode{d: d.Elem, gt: elemType(n.gt)})
	case "map":
		if mt, ok := n.gt.Underlying().(*types.Map); ok {
			return "mapm_" + ii.eqID(eqNode{d: d.Key, gt: mt.Key()}) + "_" + ii.eqID(eqNode{d: d.Val, gt: mt.Elem()})
		}
		kt, vt := pairTypes(n.gt)
		return "maps_" + ii.eqID(eqNode{d: d.Key, gt: kt}) + "_" + ii.eqID(eqNode{d: d.Val, gt: vt})
	case "enum":
		return "enum_" + d.File + "_" + normName(d.Name)
	}
	return d.K
}

func elemType(t types.Type) types.Type {
	if t == nil {
		return nil
	}
	if s, ok := t.Underlying().(*types.Slice); ok {
		return s.Elem()
	}
	return nil
}

// pairTypes: the Key and Value types of []struct{Key K; Value V}.
func pairTypes(t types.Type) (types.Type, types.Type) {
	et := elemType(t)
	if et == nil {
		return nil, nil
	}
	st, ok := et.Underlying().(*types.Struct)
	if !ok || st.NumFields() != 2 {
		return nil, nil
	}
	return st.Field(0).Type(), st.Field(1).Type()
}

// soi: the relation applied to two expressions: inline for scalars, the symbol otherwise.
func (ii *InstInfo) soi(n eqNode, a, b string) string {
	if n.opt {
		inner := eqNode{d: n.d, gt: n.gt.Underlying().(*types.Pointer).Elem()}
		return fmt.Sprintf("((%s == nil && %s == nil) || (%s != nil && %s != nil && %s))", a, b, a, b, ii.soi(inner, "*"+a, "*"+b))
	}
	if isPrimK(n.d.K) {
		return fmt.Sprintf("(%s == %s)", a, b)
	}
	return fmt.Sprintf("eqsym(%s, %s, %s)", ii.eqID(n), a, b)
}

// structInfo: schema fields and the Go struct behind a (pointer to a) named type.
func (ii *InstInfo) structInfo(gt types.Type) ([]schemaField, *types.Struct, bool) {
	t := gt
	if pt, ok := t.Underlying().(*types.Pointer); ok {
		t = pt.Elem()
	}
	named, ok := t.(*types.Named)
	if !ok || named.Obj().Pkg() == nil {
		return nil, nil, false
	}
	stt, ok := named.Underlying().(*types.Struct)
	if !ok {
		return nil, nil, false
	}
	pkgBase := filepath.Base(named.Obj().Pkg().Path())
	fields, ok := ii.structs[pkgBase][normName(named.Obj().Name())]
	if !ok || len(fields) != stt.NumFields() {
		return nil, nil, false
	}
	for _, f := range fields {
		if f.T == nil {
			return nil, nil, false
		}
	}
	return fields, stt, true
}

// fieldNode: the comparison node of field i.
func fieldNode(fl schemaField, gft types.Type) eqNode {
	if pt, ok := gft.Underlying().(*types.Pointer); ok {
		if _, isStruct := pt.Elem().Underlying().(*types.Struct); !isStruct || fl.T.K != "struct" {
			return eqNode{d: fl.T, gt: gft, opt: true}
		}
	}
	return eqNode{d: fl.T, gt: gft}
}

// fieldEq: equality of one field of a struct.
func (ii *InstInfo) fieldEq(fl schemaField, gft types.Type, a, b string) string {
	n := fieldNode(fl, gft)
	e := ii.soi(n, a, b)
	if n.opt || fl.Required {
		return e
	}
	switch gft.Underlying().(type) {
	case *types.Slice, *types.Map:
		// optional container / binary: unset (nil) differs from set-and-empty
		return fmt.Sprintf("((%s == nil && %s == nil) || (%s != nil && %s != nil && %s))", a, b, a, b, e)
	}
	return e
}

// eqDef: one unfolding of the relation of n over expressions a, b ("" when n has no definition here).
func (ii *InstInfo) eqDef(n eqNode, a, b string) string {
	if n.opt || isPrimK(n.d.K) {
		return ii.soi(n, a, b)
	}
	switch n.d.K {
	case "struct":
		fields, stt, ok := ii.structInfo(n.gt)
		if !ok {
			return ""
		}
		parts := []string{fmt.Sprintf("%s != nil && %s != nil", a, b)}
		for i, fl := range fields {
			gf := stt.Field(i)
			parts = append(parts, ii.fieldEq(fl, gf.Type(), a+"."+gf.Name(), b+"."+gf.Name()))
		}
		return fmt.Sprintf("((%s == nil && %s == nil) || (%s))", a, b, strings.Join(parts, " && "))
	case "list":
		el := eqNode{d: n.d.Elem, gt: elemType(n.gt)}
		if el.gt == nil {
			return ""
		}
		return fmt.Sprintf("(len(%s) == len(%s) && forall(i, 0, len(%s), %s))", a, b, a, ii.soi(el, a+"[i]", b+"[i]"))
	case "set":
		if eqShape(n.gt) == "m" {
			return fmt.Sprintf("forallkey(k, %s, has(%s, k) <==> has(%s, k))", a, a, b)
		}
		el := eqNode{d: n.d.Elem, gt: elemType(n.gt)}
		if el.gt == nil {
			return ""
		}
		// unhashable elements (Go slice): same length and every item of a has an
		// equal item in b; on duplicate-free sets this is mutual inclusion
		return fmt.Sprintf("(len(%s) == len(%s) && forall(i, 0, len(%s), exists(j, 0, len(%s), %s)))", a, b, a, b, ii.soi(el, a+"[i]", b+"[j]"))
	case "map":
		if mt, ok := n.gt.Underlying().(*types.Map); ok {
			vn := eqNode{d: n.d.Val, gt: mt.Elem()}
			return fmt.Sprintf("forallkey(k, %s, (has(%s, k) <==> has(%s, k)) && (has(%s, k) ==> %s))", a, a, b, a, ii.soi(vn, a+"[k]", b+"[k]"))
		}
		kt, vt := pairTypes(n.gt)
		if kt == nil {
			return ""
		}
		kn, vn := eqNode{d: n.d.Key, gt: kt}, eqNode{d: n.d.Val, gt: vt}
		// unhashable keys (Go slice of pairs): same length and, for every entry of
		// a, the first entry of b with an equal key has an equal value; on
		// duplicate-free keys this is entry-wise equality
		return fmt.Sprintf("(len(%s) == len(%s) && forall(i, 0, len(%s), exists(j, 0, len(%s), %s && forall(j2, 0, j, !%s) && %s)))",
			a, b, a, b, ii.soi(kn, a+"[i].Key", b+"[j].Key"), ii.soi(kn, a+"[i].Key", b+"[j2].Key"), ii.soi(vn, a+"[i].Value", b+"[j].Value"))
	}
	return ""
}

// eqChildren: the nodes a function for n may delegate to.
func (ii *InstInfo) eqChildren(n eqNode) []eqNode {
	if n.opt {
		return []eqNode{{d: n.d, gt: n.gt.Underlying().(*types.Pointer).Elem()}}
	}
	switch n.d.K {
	case "struct":
		fields, stt, ok := ii.structInfo(n.gt)
		if !ok {
			return nil
		}
		var out []eqNode
		for i, fl := range fields {
			out = append(out, fieldNode(fl, stt.Field(i).Type()))
		}
		return out
	case "list":
		return []eqNode{{d: n.d.Elem, gt: elemType(n.gt)}}
	case "set":
		if mt, ok := n.gt.Underlying().(*types.Map); ok {
			return []eqNode{{d: n.d.Elem, gt: mt.Key()}}
		}
		return []eqNode{{d: n.d.Elem, gt: elemType(n.gt)}}
	case "map":
		if mt, ok := n.gt.Underlying().(*types.Map); ok {
			return []eqNode{{d: n.d.Key, gt: mt.Key()}, {d: n.d.Val, gt: mt.Elem()}}
		}
		kt, vt := pairTypes(n.gt)
		return []eqNode{{d: n.d.Key, gt: kt}, {d: n.d.Val, gt: vt}}
	}
	return nil
}

func isCorpusFn(f *ssa.Function) bool {
	pk := fnPkg(f)
	return pk != nil && strings.HasPrefix(pk.Path(), "example.com/corpus/") && len(f.Blocks) > 0 && f.Synthetic == ""
}

// isEqHelper: package-level func(T, T) bool.
func isEqHelper(f *ssa.Function) bool {
	sig := f.Signature
	if sig.Recv() != nil || sig.Params().Len() != 2 || sig.Results().Len() != 1 {
		return false
	}
	if b, ok := sig.Results().At(0).Type().Underlying().(*types.Basic); !ok || b.Kind() != types.Bool {
		return false
	}
	return types.Identical(sig.Params().At(0).Type(), sig.Params().At(1).Type())
}

func (ii *InstInfo) nodeKey(n eqNode) string {
	k := ii.eqID(n)
	if n.opt {
		k = "opt_" + k
	}
	return k
}

func (ii *InstInfo) addEqualsContracts(p *Program, cs *ContractSet, prop string) error {
	// cardinality facts about finite Go maps (len is not axiomatised in gvc): assumed, listed
	cs.Macros["card_ext"] = &Macro{Kind: "axiom", Params: []string{"a", "b"}, Body: "forallkey(k, a, has(a, k) <==> has(b, k)) ==> len(a) == len(b)"}
	cs.Macros["card_subset"] = &Macro{Kind: "axiom", Params: []string{"a", "b"}, Body: "(len(a) == len(b) && forallkey(k, a, has(b, k) ==> has(a, k))) ==> forallkey(k, a, has(a, k) ==> has(b, k))"}

	assigned := map[*ssa.Function]eqNode{}
	var queue []*ssa.Function
	// methods: the receiver type names the schema type
	var all []*ssa.Function
	for f := range p.allFns {
		if isCorpusFn(f) {
			all = append(all, f)
		}
	}
	sort.Slice(all, func(i, j int) bool { return all[i].String() < all[j].String() })
	enumFn := map[*ssa.Function]bool{}
	typedefFn := map[*ssa.Function]eqNode{}
	for _, f := range all {
		if f.Name() != "Equals" || f.Signature.Recv() == nil || len(f.Params) != 2 {
			continue
		}
		rt := f.Signature.Recv().Type()
		base := rt
		if pt, ok := rt.(*types.Pointer); ok {
			base = pt.Elem()
		}
		named, ok := base.(*types.Named)
		if !ok || named.Obj().Pkg() == nil {
			continue
		}
		pkgBase := filepath.Base(named.Obj().Pkg().Path())
		nn := normName(named.Obj().Name())
		if _, ok := ii.structs[pkgBase][nn]; ok {
			n := eqNode{d: &tdesc{K: "struct", Name: named.Obj().Name(), File: pkgBase}, gt: rt}
			if _, _, ok := ii.structInfo(rt); ok {
				assigned[f] = n
				queue = append(queue, f)
			}
			continue
		}
		if ii.enums[pkgBase][nn] {
			enumFn[f] = true
			continue
		}
		if d, ok := ii.typedefs[pkgBase][nn]; ok && d != nil {
			typedefFn[f] = eqNode{d: d, gt: rt}
		}
	}
	// helpers: discovered from the calls of functions whose node is known
	ambiguous := map[*ssa.Function]string{}
	scan := func(f *ssa.Function, n eqNode, self bool) {
		kids := ii.eqChildren(n)
		if self {
			// a typedef method delegates the whole value to the helper of its target type
			kids = []eqNode{n}
		}
		for _, b := range f.Blocks {
			for _, in := range b.Instrs {
				c, ok := in.(ssa.CallInstruction)
				if !ok {
					continue
				}
				g, ok := c.Common().Value.(*ssa.Function)
				if !ok || !isCorpusFn(g) || !isEqHelper(g) {
					continue
				}
				if _, done := assigned[g]; done {
					continue
				}
				pt := g.Signature.Params().At(0).Type()
				var match *eqNode
				conflict := false
				for i := range kids {
					k := kids[i]
					if k.gt == nil || !types.Identical(k.gt, pt) {
						continue
					}
					if match != nil && ii.nodeKey(*match) != ii.nodeKey(k) {
						conflict = true
					}
					match = &kids[i]
				}
				if match == nil {
					continue
				}
				if conflict {
					ambiguous[g] = fmt.Sprintf("%s: called from %s with a Go type shared by two different Thrift types", shortFn(g.String()), shortFn(f.String()))
					continue
				}
				assigned[g] = *match
				queue = append(queue, g)
			}
		}
	}
	// deterministic discovery order (map iteration must not decide which helper gets which type)
	var tdOrder []*ssa.Function
	for f := range typedefFn {
		tdOrder = append(tdOrder, f)
	}
	sort.Slice(tdOrder, func(i, j int) bool { return tdOrder[i].String() < tdOrder[j].String() })
	for _, f := range tdOrder {
		n := typedefFn[f]
		scan(f, eqNode{d: n.d, gt: n.gt.Underlying()}, true)
	}
	for len(queue) > 0 {
		f := queue[0]
		queue = queue[1:]
		scan(f, assigned[f], false)
	}
	for g, why := range ambiguous {
		if _, ok := assigned[g]; !ok {
			ii.skipped = append(ii.skipped, why)
		}
	}

	// contracts
	have := map[*ssa.Function]bool{}
	add := func(ct *Contract) {
		if _, dup := cs.ByFunc[ct.Func]; dup {
			return
		}
		cs.ByFunc[ct.Func] = ct
		cs.Order = append(cs.Order, ct)
	}
	var fns []*ssa.Function
	for f := range assigned {
		fns = append(fns, f)
	}
	for f := range enumFn {
		fns = append(fns, f)
	}
	for f := range typedefFn {
		fns = append(fns, f)
	}
	sort.Slice(fns, func(i, j int) bool { return fns[i].String() < fns[j].String() })
	built := map[*ssa.Function]*Contract{}
	// definitional axioms of every relation that has an emitted function
	for f, n := range assigned {
		if n.opt || isPrimK(n.d.K) {
			continue
		}
		if kt, _ := pairTypes(n.gt); n.d.K == "map" && kt != nil {
			continue
		}
		def := ii.eqDef(n, "a", "b")
		if def == "" {
			continue
		}
		id := ii.eqID(n)
		if _, ok := cs.Macros["def_"+id]; !ok {
			cs.Macros["def_"+id] = &Macro{Kind: "axiom", Params: []string{"a", "b"}, Body: fmt.Sprintf("eqsym(%s, a, b) <==> %s", id, def)}
		}
		_ = f
	}
	for _, f := range fns {
		a, b := f.Params[0].Name(), f.Params[1].Name()
		ct := newContract(f, prop)
		ct.Pure = true
		ct.NoPanic = true
		ct.RegionMerge = true
		switch {
		case enumFn[f]:
			ct.Ensures = append(ct.Ensures, cl("ensures", "def", fmt.Sprintf("result == (%s == %s)", a, b)))
		case typedefFn[f].d != nil:
			n := typedefFn[f]
			inner := eqNode{d: n.d, gt: n.gt}
			if pt, ok := n.gt.(*types.Pointer); ok {
				// typedef of a struct: compared through pointers to the root struct
				if n.d.K != "struct" {
					continue
				}
				_ = pt
			}
			ct.Ensures = append(ct.Ensures, cl("ensures", "def", "result == "+ii.soi(inner, a, b)))
		default:
			n := assigned[f]
			if kt, vt := pairTypes(n.gt); n.d.K == "map" && kt != nil && !n.opt {
				// unhashable keys: the exact relation has a forall-exists-forall shape
				// the solvers do not decide in time; two bounds are proved, the
				// identification with the relation symbol is an assumed clause
				kn, vn := eqNode{d: n.d.Key, gt: kt}, eqNode{d: n.d.Val, gt: vt}
				keq := ii.soi(kn, a+"[i].Key", b+"[j].Key")
				veq := ii.soi(vn, a+"[i].Value", b+"[j].Value")
				ct.Ensures = append(ct.Ensures,
					cl("ensures", "sound", fmt.Sprintf("result ==> (len(%s) == len(%s) && forall(i, 0, len(%s), exists(j, 0, len(%s), %s && %s)))", a, b, a, b, keq, veq)),
					cl("ensures", "complete", fmt.Sprintf("(len(%s) == len(%s) && forall(i, 0, len(%s), exists(j, 0, len(%s), %s)) && forall(i, 0, len(%s), forall(j, 0, len(%s), %s ==> %s))) ==> result", a, b, a, b, keq, a, b, keq, veq)))
				sym := cl("ensures", "sym", fmt.Sprintf("result == eqsym(%s, %s, %s)", ii.eqID(n), a, b))
				sym.Assumed = true
				ct.Ensures = append(ct.Ensures, sym)
				if len(findLoops(f)) == 2 {
					ct.LoopInv[1] = []*Clause{
						cl("invariant", "len", fmt.Sprintf("len(%s) == len(%s) && ridx1 >= -1 && ridx1 < len(%s)", a, b, a)),
						cl("invariant", "found", fmt.Sprintf("forall(i, 0, ridx1 + 1, exists(j, 0, len(%s), %s && %s))", b, keq, veq)),
					}
					ct.LoopInv[2] = []*Clause{
						cl("invariant", "idx", fmt.Sprintf("0 <= ridx1 && ridx1 < len(%s) && ridx2 >= -1 && ridx2 < len(%s)", a, b)),
						cl("invariant", "nomatch", fmt.Sprintf("forall(j, 0, ridx2 + 1, !%s)", ii.soi(kn, a+"[ridx1].Key", b+"[j].Key"))),
					}
				}
				built[f] = ct
				have[f] = true
				continue
			}
			def := ii.eqDef(n, a, b)
			if def == "" {
				ii.skipped = append(ii.skipped, fmt.Sprintf("%s: no structural definition for %s", shortFn(f.String()), ii.nodeKey(n)))
				continue
			}
			ct.Ensures = append(ct.Ensures, cl("ensures", "def", "result == "+def))
			if !n.opt && !isPrimK(n.d.K) {
				id := ii.eqID(n)
				mn := "def_" + id
				if _, ok := cs.Macros[mn]; !ok {
					cs.Macros[mn] = &Macro{Kind: "axiom", Params: []string{"a", "b"}, Body: fmt.Sprintf("eqsym(%s, a, b) <==> %s", id, ii.eqDef(n, "a", "b"))}
				}
				ct.Uses = append(ct.Uses, cl("use", "", fmt.Sprintf("%s(%s, %s)", mn, a, b)))
				ct.Ensures = append(ct.Ensures, cl("ensures", "sym", fmt.Sprintf("result == eqsym(%s, %s, %s)", id, a, b)))
			}
			if n.d.K == "struct" {
				// struct-typed fields: the template may compare them through its own
				// nil wrapper, so the child's definition is unfolded once at the field
				if fields, stt, ok := ii.structInfo(n.gt); ok {
					for i, fl := range fields {
						cn := fieldNode(fl, stt.Field(i).Type())
						if cn.opt || cn.d.K != "struct" {
							continue
						}
						cm := "def_" + ii.eqID(cn)
						if _, ok := cs.Macros[cm]; ok {
							ct.Uses = append(ct.Uses, cl("use", "", fmt.Sprintf("%s(%s.%s, %s.%s)", cm, a, stt.Field(i).Name(), b, stt.Field(i).Name())))
						}
					}
				}
			}
			ii.eqLoops(f, n, ct, a, b)
		}
		built[f] = ct
		have[f] = true
	}
	// a function whose callee could not be given a contract cannot be decided
	changed := true
	for changed {
		changed = false
		for f := range built {
			for _, bl := range f.Blocks {
				for _, in := range bl.Instrs {
					c, ok := in.(ssa.CallInstruction)
					if !ok {
						continue
					}
					g, ok := c.Common().Value.(*ssa.Function)
					if !ok || !isCorpusFn(g) {
						continue
					}
					if _, ok := built[g]; ok {
						continue
					}
					if _, ok := cs.ByFunc[g.String()]; ok {
						continue
					}
					ii.skipped = append(ii.skipped, fmt.Sprintf("%s: calls %s, which has no structural contract", shortFn(f.String()), shortFn(g.String())))
					delete(built, f)
					changed = true
				}
			}
		}
	}
	var order []*ssa.Function
	for f := range built {
		order = append(order, f)
	}
	sort.Slice(order, func(i, j int) bool { return order[i].String() < order[j].String() })
	for _, f := range order {
		add(built[f])
		ii.funcs++
	}
	if ii.funcs == 0 {
		return fmt.Errorf("no Equals function of the regenerated corpus could be put under contract")
	}
	return nil
}

// eqLoops: schematic loop invariants of the container comparisons.
func (ii *InstInfo) eqLoops(f *ssa.Function, n eqNode, ct *Contract, a, b string) {
	loops := findLoops(f)
	if len(loops) == 0 || n.opt {
		return
	}
	switch n.d.K {
	case "list":
		el := eqNode{d: n.d.Elem, gt: elemType(n.gt)}
		ct.LoopInv[1] = []*Clause{
			cl("invariant", "len", fmt.Sprintf("len(%s) == len(%s) && ridx >= -1 && ridx < len(%s)", a, b, a)),
			cl("invariant", "prefix", fmt.Sprintf("forall(j, 0, ridx + 1, %s)", ii.soi(el, a+"[j]", b+"[j]"))),
		}
	case "set":
		if eqShape(n.gt) == "s" && len(loops) == 2 {
			el := eqNode{d: n.d.Elem, gt: elemType(n.gt)}
			ct.LoopInv[1] = []*Clause{
				cl("invariant", "len", fmt.Sprintf("len(%s) == len(%s) && ridx1 >= -1 && ridx1 < len(%s)", a, b, a)),
				cl("invariant", "found", fmt.Sprintf("forall(i, 0, ridx1 + 1, exists(j, 0, len(%s), %s))", b, ii.soi(el, a+"[i]", b+"[j]"))),
			}
			ct.LoopInv[2] = []*Clause{
				cl("invariant", "idx", fmt.Sprintf("0 <= ridx1 && ridx1 < len(%s) && ridx2 >= -1 && ridx2 < len(%s)", a, b)),
				cl("invariant", "nomatch", fmt.Sprintf("forall(j, 0, ridx2 + 1, !%s)", ii.soi(el, a+"[ridx1]", b+"[j]"))),
			}
		}
		if eqShape(n.gt) == "m" {
			ct.LoopInv[1] = []*Clause{
				cl("invariant", "len", fmt.Sprintf("len(%s) == len(%s)", a, b)),
				cl("invariant", "sub", fmt.Sprintf("forallkey(k, %s, visited(k) ==> (has(%s, k) && has(%s, k)))", a, a, b)),
			}
			ct.PostUses = append(ct.PostUses, cl("postuse", "", fmt.Sprintf("card_ext(%s, %s)", a, b)), cl("postuse", "", fmt.Sprintf("card_subset(%s, %s)", a, b)), cl("postuse", "", fmt.Sprintf("card_subset(%s, %s)", b, a)))
		}
	case "map":
		if mt, ok := n.gt.Underlying().(*types.Map); ok {
			vn := eqNode{d: n.d.Val, gt: mt.Elem()}
			ct.LoopInv[1] = []*Clause{
				cl("invariant", "len", fmt.Sprintf("len(%s) == len(%s)", a, b)),
				cl("invariant", "sub", fmt.Sprintf("forallkey(k, %s, visited(k) ==> (has(%s, k) && has(%s, k) && %s))", a, a, b, ii.soi(vn, a+"[k]", b+"[k]"))),
			}
			ct.PostUses = append(ct.PostUses, cl("postuse", "", fmt.Sprintf("card_ext(%s, %s)", a, b)), cl("postuse", "", fmt.Sprintf("card_subset(%s, %s)", a, b)), cl("postuse", "", fmt.Sprintf("card_subset(%s, %s)", b, a)))
		}
	}
}
