package main

import (
	"fmt"
	"go/types"
	"os"
	"sync"
	"path/filepath"
	"regexp"
	"sort"
	"strings"

	"golang.org/x/tools/go/packages"
	"golang.org/x/tools/go/ssa"
	"golang.org/x/tools/go/ssa/ssautil"
)

type specFunc struct {
	args []string
	ret  string
	// opaque definitions: declared uninterpreted in the prelude; the defining
	// equation is asserted as a ground instance wherever a contract mentions
	// an application (one level, no macro blow-up)
	params []string
	body   string
}

type SpecPrelude struct {
	funcs map[string]specFunc
	sorts map[string]bool
	text  []string
}

type Program struct {
	repo    string
	pkgs    []*packages.Package
	prog    *ssa.Program
	spkgs   []*ssa.Package
	funcs   map[string]*ssa.Function // by fn.String()
	spec    *SpecPrelude
	byName  map[string]*types.Package
	globals map[*types.Var]int
	allFns  map[*ssa.Function]bool
	modsets map[*ssa.Function]*ModSet
	namedTypes []types.Type
	sigIndex map[string][]*ssa.Function
	mu       sync.Mutex
	msMu     sync.Mutex
}

func loadProgram(repo string, patterns []string) (*Program, error) {
	cfg := &packages.Config{Mode: packages.LoadAllSyntax, Dir: repo, BuildFlags: []string{"-tags=verif"},
		Env: append(os.Environ(), "GOFLAGS=-mod=mod", "GOPROXY=off", "GOSUMDB=off", "GOTOOLCHAIN=local")}
	pkgs, err := packages.Load(cfg, patterns...)
	if err != nil {
		return nil, err
	}
	var errs []string
	packages.Visit(pkgs, nil, func(p *packages.Package) {
		for _, e := range p.Errors {
			errs = append(errs, e.Error())
		}
	})
	if len(errs) > 0 {
		return nil, fmt.Errorf("load errors: %s", strings.Join(errs, "; "))
	}
	prog, spkgs := ssautil.AllPackages(pkgs, ssa.NaiveForm|ssa.GlobalDebug)
	prog.Build()
	p := &Program{repo: repo, pkgs: pkgs, prog: prog, spkgs: spkgs, funcs: map[string]*ssa.Function{},
		byName: map[string]*types.Package{}, globals: map[*types.Var]int{}, modsets: map[*ssa.Function]*ModSet{}}
	p.allFns = ssautil.AllFunctions(prog)
	for f := range p.allFns {
		p.funcs[f.String()] = f
	}
	for _, sp := range prog.AllPackages() {
		if sp.Pkg != nil {
			if _, ok := p.byName[sp.Pkg.Name()]; !ok || strings.HasPrefix(sp.Pkg.Path(), "go.uber.org/thriftrw") {
				p.byName[sp.Pkg.Name()] = sp.Pkg
			}
			for _, m := range sp.Members {
				if t, ok := m.(*ssa.Type); ok {
					p.namedTypes = append(p.namedTypes, t.Type())
				}
			}
		}
	}
	sort.Slice(p.namedTypes, func(i, j int) bool { return p.namedTypes[i].String() < p.namedTypes[j].String() })
	p.spec = &SpecPrelude{funcs: map[string]specFunc{}, sorts: map[string]bool{}}
	return p, nil
}

func (p *Program) pkgByName(name string) *types.Package { return p.byName[name] }

func (p *Program) pkgByPath(path string) *types.Package {
	for _, sp := range p.prog.AllPackages() {
		if sp.Pkg != nil && sp.Pkg.Path() == path {
			return sp.Pkg
		}
	}
	return nil
}

// globalRef gives each package-level variable a fixed negative-free reference
// (1..n are reserved for globals; the entry allocation counter starts above).
func (p *Program) globalRef(ex *Exec, v *types.Var) Term {
	p.mu.Lock()
	defer p.mu.Unlock()
	n, ok := p.globals[v]
	if !ok {
		n = len(p.globals) + 1
		p.globals[v] = n
	}
	return intLit(int64(n))
}

const maxGlobals = 4096

var reDeclFun = regexp.MustCompile(`^\((declare-fun|define-fun|define-fun-rec)\s+([^\s()]+)\s+\(`)
var reDeclSort = regexp.MustCompile(`^\(declare-sort\s+([^\s()]+)`)
var reDeclConst = regexp.MustCompile(`^\(declare-const\s+([^\s()]+)\s+(.*)\)\s*$`)
var reDeclDT = regexp.MustCompile(`^\(declare-datatypes\s+\(\(([^\s()]+)\s+0\)\)`)

// loadSpec parses an SMT-LIB prelude for the signatures of its functions.
func (sp *SpecPrelude) load(path string) error {
	data, err := os.ReadFile(path)
	if err != nil {
		return err
	}
	// strip comments
	var lines []string
	opaque := map[string]bool{}
	for _, l := range strings.Split(string(data), "\n") {
		if i := strings.Index(l, "; @opaque "); i >= 0 {
			opaque[strings.TrimSpace(l[i+len("; @opaque "):])] = true
		}
		if i := strings.Index(l, ";"); i >= 0 {
			l = l[:i]
		}
		lines = append(lines, l)
	}
	text := strings.Join(lines, "\n")
	for _, form := range splitSexprs(text) {
		f := strings.TrimSpace(form)
		flat := strings.Join(strings.Fields(f), " ")
		if m := reDeclSort.FindStringSubmatch(flat); m != nil {
			sp.sorts[m[1]] = true
		} else if m := reDeclDT.FindStringSubmatch(flat); m != nil {
			sp.sorts[m[1]] = true
			// constructor/selector signatures
			inner := splitSexprs(flat[1 : len(flat)-1])
			if len(inner) == 3 {
				ctors := splitSexprs(inner[2][1 : len(inner[2])-1])
				for _, cgroup := range ctors {
					for _, c := range splitSexprs(cgroup[1 : len(cgroup)-1]) {
						parts := splitSexprs(strings.Trim(c, " "))
						if strings.HasPrefix(c, "(") {
							parts = splitSexprs(c[1 : len(c)-1])
						}
						if len(parts) == 0 {
							continue
						}
						var as []string
						for _, s := range parts[1:] {
							sp2 := splitSexprs(s[1 : len(s)-1])
							as = append(as, sp2[1])
							sp.funcs[sp2[0]] = specFunc{args: []string{m[1]}, ret: sp2[1]}
						}
						sp.funcs[parts[0]] = specFunc{args: as, ret: m[1]}
					}
				}
			}
		} else if m := reDeclConst.FindStringSubmatch(flat); m != nil {
			sp.funcs[m[1]] = specFunc{ret: strings.TrimSpace(m[2])}
		} else if m := reDeclFun.FindStringSubmatch(flat); m != nil {
			parts := splitSexprs(flat[1 : len(flat)-1])
			// parts: kw name (args) ret [body]
			if len(parts) >= 4 {
				var as []string
				argl := parts[2]
				for _, a := range splitSexprs(argl[1 : len(argl)-1]) {
					if m[1] == "declare-fun" {
						as = append(as, a)
					} else {
						ap := splitSexprs(a[1 : len(a)-1])
						as = append(as, ap[1])
					}
				}
				sf := specFunc{args: as, ret: parts[3]}
				if m[1] == "define-fun" && opaque[parts[1]] && len(parts) >= 5 {
					for _, a := range splitSexprs(argl[1 : len(argl)-1]) {
						ap := splitSexprs(a[1 : len(a)-1])
						sf.params = append(sf.params, ap[0])
					}
					sf.body = parts[4]
					sp.funcs[parts[1]] = sf
					sp.text = append(sp.text, fmt.Sprintf("(declare-fun %s (%s) %s)", parts[1], strings.Join(as, " "), parts[3]))
					continue
				}
				sp.funcs[parts[1]] = sf
			}
		}
		sp.text = append(sp.text, f)
	}
	return nil
}

// collectContracts reads the contract files of all loaded /repo packages and
// the external contracts under /verif/external.
func (p *Program) collectContracts(verifDir string) (*ContractSet, error) {
	cs := newContractSet()
	seen := map[string]bool{}
	packages.Visit(p.pkgs, nil, func(pk *packages.Package) {
		if !strings.HasPrefix(pk.PkgPath, "go.uber.org/thriftrw") && !strings.HasPrefix(pk.PkgPath, "example.com/") {
			return
		}
		for _, f := range pk.GoFiles {
			if strings.HasPrefix(filepath.Base(f), "zz_verif_contracts") && !seen[f] {
				seen[f] = true
				if err := cs.ParseFile(f, pk.PkgPath, false); err != nil {
					fmt.Fprintln(os.Stderr, "contract parse error:", err)
					os.Exit(3)
				}
			}
		}
	})
	ext, _ := filepath.Glob(filepath.Join(verifDir, "external", "*.gvc"))
	sort.Strings(ext)
	for _, f := range ext {
		if err := cs.ParseFile(f, "", true); err != nil {
			return nil, err
		}
	}
	for _, f := range cs.Spec {
		if err := p.spec.load(filepath.Join(verifDir, "spec", f)); err != nil {
			return nil, err
		}
	}
	ghostAliases = map[string]compInfo{}
	for g, target := range cs.GhostAlias {
		i := strings.LastIndex(target, ".")
		j := strings.LastIndex(target[:i], ".")
		pkgPath, tname, fname := target[:j], target[j+1:i], target[i+1:]
		ok := false
		packages.Visit(p.pkgs, nil, func(pk *packages.Package) {
			if pk.PkgPath != pkgPath || pk.Types == nil || ok {
				return
			}
			obj := pk.Types.Scope().Lookup(tname)
			if obj == nil {
				return
			}
			stt, isS := obj.Type().Underlying().(*types.Struct)
			if !isS {
				return
			}
			for k := 0; k < stt.NumFields(); k++ {
				if stt.Field(k).Name() == fname {
					ghostAliases[g] = compInfo{kind: 'F', t: obj.Type(), idx: k}
					ok = true
				}
			}
		})
		if !ok {
			return nil, fmt.Errorf("ghostalias %s: %s not found", g, target)
		}
	}
	return cs, nil
}


// sizeof: size in bytes of a value of type t on a 64-bit target.
func (p *Program) sizeof(t types.Type) int64 {
	sz := types.SizesFor("gc", "amd64")
	return sz.Sizeof(t)
}
