package main

import (
	"flag"
	"fmt"
	"math"
	"os"
	"sort"
	"strings"
	"time"

	"golang.org/x/tools/go/ssa"
)

func mathFloat64bits(f float64) uint64 { return math.Float64bits(f) }
func mathFloat32bits(f float32) uint32 { return math.Float32bits(f) }

func usage() {
	fmt.Fprintln(os.Stderr, `usage:
  gvc check -prop <id> [-tier quick|thorough]   decide a property (writes evidence, prints VIOLATION lines)
  gvc fn -pkgs <patterns> -fn <substr>           verify matching contracts, verbose (development)
  gvc dump -pkgs <patterns> -fn <name>           print NaiveForm SSA
  gvc selftest                                   run the must-fail corpus`)
	os.Exit(2)
}

func main() {
	if len(os.Args) < 2 {
		usage()
	}
	switch os.Args[1] {
	case "check":
		os.Exit(cmdCheck(os.Args[2:]))
	case "fn":
		os.Exit(cmdFn(os.Args[2:]))
	case "dump":
		os.Exit(cmdDump(os.Args[2:]))
	case "modset":
		os.Exit(cmdModset(os.Args[2:]))
	case "selftest":
		os.Exit(cmdSelftest(os.Args[2:]))
	default:
		usage()
	}
}

func cmdDump(args []string) int {
	fs := flag.NewFlagSet("dump", flag.ExitOnError)
	repo := fs.String("repo", "/repo", "repository")
	pkgs := fs.String("pkgs", "./...", "package patterns")
	name := fs.String("fn", "", "function name (substring of ssa name)")
	fs.Parse(args)
	p, err := loadProgram(*repo, strings.Fields(*pkgs))
	if err != nil {
		fmt.Fprintln(os.Stderr, err)
		return 3
	}
	var names []string
	for n := range p.funcs {
		if strings.Contains(n, *name) {
			names = append(names, n)
		}
	}
	sort.Strings(names)
	for _, n := range names {
		p.funcs[n].WriteTo(os.Stdout)
	}
	return 0
}

func cmdFn(args []string) int {
	fs := flag.NewFlagSet("fn", flag.ExitOnError)
	repo := fs.String("repo", "/repo", "repository")
	verif := fs.String("verif", "/verif", "verif dir")
	pkgs := fs.String("pkgs", "./...", "package patterns")
	name := fs.String("fn", "", "contract name substring")
	timeout := fs.Duration("timeout", 10*time.Second, "per-obligation timeout")
	keep := fs.String("keep", "", "directory to keep query files in")
	verbose := fs.Bool("v", false, "print every goal")
	fs.Parse(args)
	t0 := time.Now()
	p, err := loadProgram(*repo, strings.Fields(*pkgs))
	if err != nil {
		fmt.Fprintln(os.Stderr, err)
		return 3
	}
	cs, err := p.collectContracts(*verif)
	if err != nil {
		fmt.Fprintln(os.Stderr, err)
		return 3
	}
	fmt.Printf("loaded in %.1fs, %d contracts\n", time.Since(t0).Seconds(), len(cs.Order))
	dir := *keep
	if dir == "" {
		dir, _ = os.MkdirTemp("", "gvc")
		defer os.RemoveAll(dir)
	} else {
		os.MkdirAll(dir, 0o755)
	}
	sem := make(chan struct{}, 16)
	bad := 0
	for _, ct := range cs.Order {
		if ct.External || ct.Trusted || ct.Opaque || !strings.Contains(ct.Func, *name) || ct.onlyInline() {
			continue
		}
		t1 := time.Now()
		fr := p.verifyFunction(cs, ct)
		gen := time.Since(t1).Seconds()
		fmt.Printf("== %s  attached=%v instrs=%d paths=%d goals=%d (gen %.2fs)\n", shortFn(ct.Func), fr.Attached, fr.Instrs, fr.Paths, len(fr.Goals), gen)
		for _, u := range fr.Unsupported {
			fmt.Println("   UNSUPPORTED:", u)
			bad++
		}
		for _, u := range fr.SpecErrs {
			fmt.Println("   SPEC ERROR:", u)
			bad++
		}
		for _, u := range fr.Notes {
			fmt.Println("   note:", u)
		}
		if len(fr.Uncontracted) > 0 {
			sort.Strings(fr.Uncontracted)
			fmt.Println("   uncontracted callees (havoc by inferred mod-set):", strings.Join(fr.Uncontracted, ", "))
		}
		outs := discharge(dir, fr, *timeout, false, sem, *keep != "")
		agg := aggregate(outs)
		for _, a := range agg {
			if !a.OK || *verbose {
				fmt.Printf("   %-12s %-60s %s %.2fs paths=%d %s\n", a.Status, a.Name, a.Solver, a.Seconds, a.Instances, a.Text)
				if !a.OK {
					bad++
					if a.Fail != nil && a.Fail.File != "" {
						fmt.Println("      query:", a.Fail.File, " path:", a.Fail.Goal.PathTag)
					}
				}
			}
		}
		fmt.Printf("   %d obligations, %d discharged (%.2fs)\n", len(agg), countOK(agg), time.Since(t1).Seconds())
	}
	if bad > 0 {
		return 1
	}
	return 0
}

type aggGoal struct {
	Name      string
	Kind      string
	Props     []string
	OK        bool
	Status    string
	Solver    string
	Seconds   float64
	Instances int
	Text      string
	Fail      *goalOutcome
	Fn        string
	Pos       string
	Second    string
	MaxSecs   float64
}

// aggregate groups per-path goal instances by obligation name.
func aggregate(outs []*goalOutcome) []*aggGoal {
	m := map[string]*aggGoal{}
	var order []string
	for _, o := range outs {
		a, ok := m[o.Goal.Name]
		if !ok {
			a = &aggGoal{Name: o.Goal.Name, Kind: o.Goal.Kind, Props: o.Goal.Props, OK: true, Status: o.Status, Text: o.Goal.Text, Fn: o.Goal.Fn, Pos: o.Goal.Pos}
			if o.Goal.Expect == "sat" {
				// a cover is satisfied when any instance is sat
				a.OK = false
				a.Status = "cover-vacuous"
			}
			m[o.Goal.Name] = a
			order = append(order, o.Goal.Name)
		}
		a.Instances++
		a.Seconds += o.Res.Seconds
		if o.Res.Seconds > a.MaxSecs {
			a.MaxSecs = o.Res.Seconds
		}
		if o.Goal.Expect == "sat" {
			if o.OK {
				a.OK = true
				a.Status = "cover-ok"
				a.Solver = o.Res.Solver
			} else if !a.OK && a.Fail == nil {
				a.Fail = o
			}
			continue
		}
		if o.OK {
			if a.Solver == "" || a.Solver == "syntactic" {
				a.Solver = o.Res.Solver
			}
			if o.Res.Second != "" {
				a.Second = o.Res.Second
			}
		} else {
			if a.OK || (a.Status == "unknown" && o.Status == "failed") {
				a.Status = o.Status
				a.Fail = o
				a.Solver = o.Res.Solver
			}
			a.OK = false
		}
	}
	var out []*aggGoal
	for _, n := range order {
		out = append(out, m[n])
	}
	return out
}

func countOK(as []*aggGoal) int {
	n := 0
	for _, a := range as {
		if a.OK {
			n++
		}
	}
	return n
}

var _ = ssa.NaiveForm

func cmdModset(args []string) int {
	fs := flag.NewFlagSet("modset", flag.ExitOnError)
	repo := fs.String("repo", "/repo", "repository")
	verif := fs.String("verif", "/verif", "verif dir")
	pkgs := fs.String("pkgs", "./...", "package patterns")
	name := fs.String("fn", "", "function name substring")
	fs.Parse(args)
	p, err := loadProgram(*repo, strings.Fields(*pkgs))
	if err != nil {
		fmt.Fprintln(os.Stderr, err)
		return 3
	}
	cs, err := p.collectContracts(*verif)
	if err != nil {
		fmt.Fprintln(os.Stderr, err)
		return 3
	}
	var names []string
	for n, f := range p.funcs {
		if strings.Contains(n, *name) && inModule(f) {
			names = append(names, n)
		}
	}
	sort.Strings(names)
	for _, n := range names {
		ms := p.modSetOf(cs, p.funcs[n])
		fmt.Printf("%s: all=%v %s\n", n, ms.all, ms.why)
		for _, c := range ms.sorted() {
			fmt.Printf("    %-8s %s\n", map[bool]string{true: "NONFRESH", false: "fresh"}[ms.nonfresh[c]], c)
		}
	}
	return 0
}
