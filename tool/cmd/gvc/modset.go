package main

// Inferred mod-sets: the heap components a function may store to, transitively
// over the static call graph, with class-hierarchy resolution of interface
// calls inside the module. Flow-insensitive and type-based.

import (
	"fmt"
	"go/ast"
	"go/parser"
	"go/token"
	"go/types"
	"sort"
	"strings"

	"golang.org/x/tools/go/ssa"
)

type compInfo struct {
	kind byte // F A C P V L G
	t    types.Type
	t2   types.Type
	idx  int
	name string
}

type ModSet struct {
	comps    map[string]compInfo
	nonfresh map[string]bool // component may be written at objects that existed before the call
	curFresh bool            // mode for the add* methods: the write goes to an object allocated by the writer itself
	all      bool
	why      string
}

func newModSet() *ModSet { return &ModSet{comps: map[string]compInfo{}, nonfresh: map[string]bool{}} }

func (m *ModSet) put(k string, ci compInfo) {
	m.comps[k] = ci
	if !m.curFresh {
		m.nonfresh[k] = true
	}
}

func (m *ModSet) sorted() []string {
	var ks []string
	for k := range m.comps {
		ks = append(ks, k)
	}
	sort.Strings(ks)
	return ks
}

func (m *ModSet) setAll(why string) {
	if !m.all {
		m.all = true
		m.why = why
	}
}

func (m *ModSet) union(o *ModSet) {
	if o.all {
		m.setAll(o.why)
	}
	for k, v := range o.comps {
		m.comps[k] = v
		if o.nonfresh[k] {
			m.nonfresh[k] = true
		}
	}
}

func (m *ModSet) addField(st types.Type, i int) {
	stt := st.Underlying().(*types.Struct)
	ft := stt.Field(i).Type()
	if at, ok := ft.Underlying().(*types.Array); ok {
		m.addArr(at.Elem())
		return
	}
	m.put(compFieldT(st, i), compInfo{kind: 'F', t: st, idx: i})
}

func (m *ModSet) addArr(elem types.Type) {
	m.put(compArrT(elem), compInfo{kind: 'A', t: elem})
}

func (m *ModSet) addCell(t types.Type) {
	switch tt := t.Underlying().(type) {
	case *types.Struct:
		for i := 0; i < tt.NumFields(); i++ {
			m.addField(t, i)
		}
	case *types.Array:
		m.addArr(tt.Elem())
	default:
		m.put(compCellT(t), compInfo{kind: 'C', t: t})
	}
}

func (m *ModSet) addMap(mt *types.Map) {
	m.put(compMapPT(mt.Key(), mt.Elem()), compInfo{kind: 'P', t: mt.Key(), t2: mt.Elem()})
	m.put(compMapVT(mt.Key(), mt.Elem()), compInfo{kind: 'V', t: mt.Key(), t2: mt.Elem()})
	m.put(compMapL(), compInfo{kind: 'L'})
}

func (m *ModSet) addGhost(name string) {
	if a, ok := ghostAliases[name]; ok {
		m.put(compGhost(name), a)
		return
	}
	m.put(compGhost(name), compInfo{kind: 'G', name: name})
}

// storeEffect records the component written by a store through addr.
func (p *Program) storeEffect(m *ModSet, addr ssa.Value) {
	switch x := addr.(type) {
	case *ssa.FieldAddr:
		st := x.X.Type().Underlying().(*types.Pointer).Elem()
		ft := st.Underlying().(*types.Struct).Field(x.Field).Type()
		if _, isStruct := ft.Underlying().(*types.Struct); isStruct {
			// whole nested struct value lives in the parent's field component
		}
		m.addField(st, x.Field)
		return
	case *ssa.IndexAddr:
		switch tt := x.X.Type().Underlying().(type) {
		case *types.Slice:
			m.addArr(tt.Elem())
		case *types.Pointer:
			at := tt.Elem().Underlying().(*types.Array)
			m.addArr(at.Elem())
		}
		return
	}
	if pt, ok := addr.Type().Underlying().(*types.Pointer); ok {
		m.addCell(pt.Elem())
	}
}

func inModule(fn *ssa.Function) bool {
	pk := fnPkg(fn)
	if pk == nil {
		return false
	}
	return strings.HasPrefix(pk.Path(), "go.uber.org/thriftrw") || strings.HasPrefix(pk.Path(), "example.com/")
}

// nested stores into a struct-typed field path: FieldAddr(FieldAddr(p, f), g)
// writes component F|T|f (the nested struct is stored by value).
func normalizeAddr(addr ssa.Value) ssa.Value {
	for {
		switch x := addr.(type) {
		case *ssa.FieldAddr:
			if inner, ok := x.X.(*ssa.FieldAddr); ok {
				_ = inner
				// x.X is the address of a nested struct field (by value)
				addr = x.X
				continue
			}
			if inner, ok := x.X.(*ssa.IndexAddr); ok {
				addr = inner
				continue
			}
			return addr
		case *ssa.IndexAddr:
			// element of an array nested in a struct field: &p.f[i]
			if inner, ok := x.X.(*ssa.FieldAddr); ok {
				if _, isArr := inner.Type().Underlying().(*types.Pointer).Elem().Underlying().(*types.Array); isArr {
					return addr
				}
			}
			return addr
		default:
			return addr
		}
	}
}

// modSetOf computes the mod-set of fn (memoised).
func (p *Program) modSetOf(cs *ContractSet, fn *ssa.Function) *ModSet {
	p.msMu.Lock()
	defer p.msMu.Unlock()
	return p.modSetOfLocked(cs, fn)
}

func (p *Program) modSetOfLocked(cs *ContractSet, fn *ssa.Function) *ModSet {
	if ms, ok := p.modsets[fn]; ok {
		return ms
	}
	ms := newModSet()
	p.modsets[fn] = ms // recursion: partial set; fixpoint by the outer reachable-set construction
	if ct, ok := cs.ByFunc[fn.String()]; ok && ct.Inline && !inModule(fn) && len(fn.Blocks) > 0 {
		// inlined external leaf: analyse its body
	} else if !inModule(fn) {
		if ct, ok := cs.ByFunc[fn.String()]; ok && (ct.Pure || len(ct.Modifies) > 0) {
			if !ct.Pure {
				p.modifiesComps(cs, ct, ms, fn.Signature)
			}
			return ms
		}
		if !pureByPackage(fn) {
			ms.setAll("external call " + fn.String())
		}
		return ms
	}
	reach := map[*ssa.Function]bool{}
	var visit func(f *ssa.Function)
	visit = func(f *ssa.Function) {
		if reach[f] || ms.all {
			return
		}
		reach[f] = true
		if len(f.Blocks) == 0 {
			ms.setAll("no body: " + f.String())
			return
		}
		for _, b := range f.Blocks {
			for _, in := range b.Instrs {
				switch x := in.(type) {
				case *ssa.Store:
					if a := rootAlloc(x.Addr); a != nil && isPrivateAlloc(a) {
						continue
					}
					ms.curFresh = freshRoot(x.Addr)
					p.storeEffect(ms, normalizeAddr(x.Addr))
					ms.curFresh = false
				case *ssa.MapUpdate:
					ms.curFresh = freshMapValue(x.Map)
					ms.addMap(x.Map.Type().Underlying().(*types.Map))
					ms.curFresh = false
				case *ssa.Send, *ssa.Select, *ssa.Go:
					ms.setAll("concurrency in " + f.String())
				case *ssa.MakeClosure:
					if cf, ok := x.Fn.(*ssa.Function); ok {
						visit(cf)
					}
				case ssa.CallInstruction:
					p.calleeEffects(cs, ms, x.Common(), f, visit)
				case *ssa.UnOp:
					if x.Op == token.ARROW {
						ms.setAll("channel receive in " + f.String())
					}
				}
			}
		}
	}
	visit(fn)
	return ms
}

// freshRoot: the address is rooted at an object allocated by this function
// activation itself (Alloc / new / make), so the store cannot change any
// object that existed when the function was called.
// freshMapValue: the map operand is a map made by this function: a MakeMap, or
// the contents of a local variable whose every assignment is a MakeMap
// (NaiveForm keeps `m := make(...)` in a local cell).
func freshMapValue(v ssa.Value) bool {
	switch x := v.(type) {
	case *ssa.MakeMap:
		return true
	case *ssa.UnOp:
		a, ok := x.X.(*ssa.Alloc)
		if !ok || a.Heap {
			return false
		}
		n := 0
		for _, ref := range *a.Referrers() {
			switch r := ref.(type) {
			case *ssa.Store:
				if r.Addr != a {
					return false // the cell's address escapes into another store
				}
				if _, ok := r.Val.(*ssa.MakeMap); !ok {
					return false
				}
				n++
			case *ssa.UnOp, *ssa.DebugRef:
			default:
				return false
			}
		}
		return n > 0
	}
	return false
}

func freshRoot(v ssa.Value) bool {
	for {
		switch x := v.(type) {
		case *ssa.Alloc:
			return true
		case *ssa.FieldAddr:
			v = x.X
		case *ssa.IndexAddr:
			switch y := x.X.(type) {
			case *ssa.MakeSlice:
				return true
			case *ssa.Slice:
				v = y.X
			default:
				if _, ok := x.X.Type().Underlying().(*types.Pointer); ok {
					v = x.X
				} else {
					return false
				}
			}
		default:
			return false
		}
	}
}

// callEffect adds the effect of one call site (used for loops).
func (p *Program) callEffect(cs *ContractSet, ms *ModSet, c *ssa.CallCommon, caller *ssa.Function) {
	p.msMu.Lock()
	defer p.msMu.Unlock()
	p.calleeEffects(cs, ms, c, caller, func(f *ssa.Function) {
		ms.union(p.modSetOfLocked(cs, f))
	})
}

func (p *Program) calleeEffects(cs *ContractSet, ms *ModSet, c *ssa.CallCommon, caller *ssa.Function, visit func(f *ssa.Function)) {
	if c.IsInvoke() {
		name := "(" + typeKey(c.Value.Type()) + ")." + c.Method.Name()
		if ct, ok := cs.ByFunc[name]; ok {
			if ct.Pure {
				return
			}
			if len(ct.Modifies) > 0 {
				p.modifiesComps(cs, ct, ms, c.Signature())
				return
			}
		}
		iface, _ := c.Value.Type().Underlying().(*types.Interface)
		named, _ := c.Value.Type().(*types.Named)
		external := named == nil || named.Obj().Pkg() == nil || !(strings.HasPrefix(named.Obj().Pkg().Path(), "go.uber.org/thriftrw") || strings.HasPrefix(named.Obj().Pkg().Path(), "example.com/"))
		if named != nil && named.Obj().Pkg() == nil && named.Obj().Name() == "error" {
			// error.Error(): formatting only (assumption A-FMT-PURE)
			return
		}
		if external || iface == nil {
			ms.setAll("invoke on external interface " + name)
			return
		}
		for _, impl := range p.implementers(iface) {
			if f := p.prog.LookupMethod(impl, c.Method.Pkg(), c.Method.Name()); f != nil {
				visit(f)
			}
		}
		return
	}
	switch callee := c.Value.(type) {
	case *ssa.Builtin:
		switch callee.Name() {
		case "append":
			if st, ok := c.Args[0].Type().Underlying().(*types.Slice); ok {
				ms.addArr(st.Elem())
			}
		case "copy":
			if st, ok := c.Args[0].Type().Underlying().(*types.Slice); ok {
				ms.addArr(st.Elem())
			}
		case "delete", "clear":
			if mt, ok := c.Args[0].Type().Underlying().(*types.Map); ok {
				ms.addMap(mt)
			}
		}
	case *ssa.Function:
		p.staticEffect(cs, ms, callee, c, visit)
	case *ssa.MakeClosure:
		if f, ok := callee.Fn.(*ssa.Function); ok {
			p.staticEffect(cs, ms, f, c, visit)
		}
	default:
		// call through a function value: every module function or closure
		// with an identical signature is a candidate (type-based resolution)
		cands := p.funcsBySig(c.Signature())
		if cands == nil {
			ms.setAll("dynamic call in " + caller.String())
			return
		}
		for _, f := range cands {
			visit(f)
		}
	}
}

// funcsBySig: module functions (including closures and methods used as
// values) whose signature is identical to sig. External function values that
// reach such a call site are not covered (assumption A-FUNCVAL).
func (p *Program) funcsBySig(sig *types.Signature) []*ssa.Function {
	if p.sigIndex == nil {
		p.sigIndex = map[string][]*ssa.Function{}
		for f := range p.allFns {
			if !inModule(f) || len(f.Blocks) == 0 {
				continue
			}
			s := f.Signature
			key := sigKey(s)
			p.sigIndex[key] = append(p.sigIndex[key], f)
		}
		for _, fs := range p.sigIndex {
			sort.Slice(fs, func(i, j int) bool { return fs[i].String() < fs[j].String() })
		}
	}
	return p.sigIndex[sigKey(sig)]
}

func sigKey(s *types.Signature) string {
	var b strings.Builder
	b.WriteString("func(")
	for i := 0; i < s.Params().Len(); i++ {
		b.WriteString(typeKey(s.Params().At(i).Type()))
		b.WriteString(",")
	}
	if s.Variadic() {
		b.WriteString("...")
	}
	b.WriteString(")(")
	for i := 0; i < s.Results().Len(); i++ {
		b.WriteString(typeKey(s.Results().At(i).Type()))
		b.WriteString(",")
	}
	b.WriteString(")")
	return b.String()
}

func (p *Program) staticEffect(cs *ContractSet, ms *ModSet, f *ssa.Function, c *ssa.CallCommon, visit func(f *ssa.Function)) {
	if ct, ok := cs.ByFunc[f.String()]; ok {
		if ct.Pure {
			return
		}
		if len(ct.Modifies) > 0 && (!inModule(f) || len(f.Blocks) == 0 || ct.Trusted) {
			p.modifiesComps(cs, ct, ms, f.Signature)
			return
		}
	}
	if o := f.Origin(); o != nil {
		if ct, ok := cs.ByFunc[o.String()]; ok && ct.Pure {
			return
		}
	}
	if !inModule(f) {
		if ct, ok := cs.ByFunc[f.String()]; ok && ct.Inline && len(f.Blocks) > 0 {
			visit(f)
			return
		}
		if len(f.Blocks) == 0 || !pureByPackage(f) {
			ms.setAll("external call " + f.String())
		}
		return
	}
	visit(f)
}

// pureByPackage: standard-library packages whose functions do not write to
// memory reachable from their arguments (formatting, string and path
// manipulation, math). Listed in evidence as assumption A-STDLIB-PURE.
func pureByPackage(f *ssa.Function) bool {
	pk := fnPkg(f)
	if pk == nil {
		return false
	}
	switch pk.Path() {
	case "fmt", "strings", "strconv", "errors", "path/filepath", "path", "math", "unicode", "unicode/utf8", "math/bits":
		return !strings.HasPrefix(f.Name(), "Fprint") && !strings.HasPrefix(f.Name(), "Fscan") && !strings.HasPrefix(f.Name(), "Sscan")
	}
	return false
}

// modifiesComps resolves the component-level effect of a contract's modifies
// clauses against the callee's signature types (used for callees without a
// body in the module: external functions and interface methods).
func (p *Program) modifiesComps(cs *ContractSet, ct *Contract, ms *ModSet, sig *types.Signature) {
	names := map[string]types.Type{}
	if sig != nil {
		if r := sig.Recv(); r != nil {
			names[r.Name()] = r.Type()
			names["recv"] = r.Type()
		}
		for i := 0; i < sig.Params().Len(); i++ {
			v := sig.Params().At(i)
			names[v.Name()] = v.Type()
			names[fmt.Sprintf("arg%d", i)] = v.Type()
		}
	}
	for _, cl := range ct.Modifies {
		for _, part := range splitTop(cl.Text) {
			part = strings.TrimSpace(part)
			switch part {
			case "nothing":
				continue
			case "all":
				ms.setAll("modifies all: " + ct.Func)
				continue
			}
			e, err := parser.ParseExpr(part)
			if err != nil {
				ms.setAll("unparsable modifies in " + ct.Func)
				continue
			}
			if !p.modLoc(cs, ms, e, names) {
				ms.setAll("unresolvable modifies " + part + " in " + ct.Func)
			}
		}
	}
}

func specExprType(e ast.Expr, names map[string]types.Type) types.Type {
	switch x := e.(type) {
	case *ast.Ident:
		return names[x.Name]
	case *ast.ParenExpr:
		return specExprType(x.X, names)
	case *ast.StarExpr:
		if t := specExprType(x.X, names); t != nil {
			if pt, ok := t.Underlying().(*types.Pointer); ok {
				return pt.Elem()
			}
		}
	case *ast.SelectorExpr:
		t := specExprType(x.X, names)
		if t == nil {
			return nil
		}
		if pt, ok := t.Underlying().(*types.Pointer); ok {
			t = pt.Elem()
		}
		if st, ok := t.Underlying().(*types.Struct); ok {
			for i := 0; i < st.NumFields(); i++ {
				if st.Field(i).Name() == x.Sel.Name {
					return st.Field(i).Type()
				}
			}
		}
	case *ast.IndexExpr:
		t := specExprType(x.X, names)
		if t == nil {
			return nil
		}
		switch tt := t.Underlying().(type) {
		case *types.Slice:
			return tt.Elem()
		case *types.Array:
			return tt.Elem()
		case *types.Map:
			return tt.Elem()
		}
	}
	return nil
}

// modLoc adds the component of a modifies location expression.
func (p *Program) modLoc(cs *ContractSet, ms *ModSet, e ast.Expr, names map[string]types.Type) bool {
	switch x := e.(type) {
	case *ast.CallExpr:
		if id, ok := x.Fun.(*ast.Ident); ok {
			if _, ok := cs.Ghost[id.Name]; ok {
				ms.addGhost(id.Name)
				return true
			}
			if len(x.Args) == 1 {
				t := specExprType(x.Args[0], names)
				if t == nil {
					return false
				}
				switch id.Name {
				case "elems":
					if st, ok := t.Underlying().(*types.Slice); ok {
						ms.addArr(st.Elem())
						return true
					}
				case "mapof":
					if mt, ok := t.Underlying().(*types.Map); ok {
						ms.addMap(mt)
						return true
					}
				}
			}
		}
	case *ast.SelectorExpr:
		t := specExprType(x.X, names)
		if t == nil {
			return false
		}
		if pt, ok := t.Underlying().(*types.Pointer); ok {
			t = pt.Elem()
		}
		if st, ok := t.Underlying().(*types.Struct); ok {
			for i := 0; i < st.NumFields(); i++ {
				if st.Field(i).Name() == x.Sel.Name {
					ms.addField(t, i)
					return true
				}
			}
		}
	case *ast.StarExpr:
		t := specExprType(x.X, names)
		if t == nil {
			return false
		}
		if pt, ok := t.Underlying().(*types.Pointer); ok {
			ms.addCell(pt.Elem())
			return true
		}
	}
	return false
}

func (p *Program) implementers(iface *types.Interface) []types.Type {
	var out []types.Type
	for _, t := range p.namedTypes {
		n, ok := t.(*types.Named)
		if !ok || n.Obj().Pkg() == nil {
			continue
		}
		path := n.Obj().Pkg().Path()
		if !(strings.HasPrefix(path, "go.uber.org/thriftrw") || strings.HasPrefix(path, "example.com/")) {
			continue
		}
		if _, isIface := t.Underlying().(*types.Interface); isIface {
			continue
		}
		if types.Implements(t, iface) {
			out = append(out, t)
		} else if types.Implements(types.NewPointer(t), iface) {
			out = append(out, types.NewPointer(t))
		}
	}
	return out
}
