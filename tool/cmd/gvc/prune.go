package main

// Relevance pruning of hypotheses. Dropping hypotheses only weakens a query,
// so an `unsat` answer on a pruned query is an `unsat` answer for the full one.
// A `sat` answer on a pruned query proves nothing and is never reported.

import (
	"regexp"
	"strings"
)

var reSym = regexp.MustCompile(`[A-Za-z_][A-Za-z0-9_.!$]*`)

var smtBuiltins = map[string]bool{"assert": true, "forall": true, "exists": true, "select": true, "store": true, "and": true, "or": true, "not": true,
	"ite": true, "true": true, "false": true, "let": true, "as": true, "const": true, "Array": true, "BitVec": true, "Int": true, "Bool": true,
	"define": true, "fun": true, "pattern": true, "distinct": true, "extract": true, "sign_extend": true, "zero_extend": true, "Str": true, "Slice": true, "Iface": true}

func lineSymbols(l string) []string {
	var out []string
	for _, m := range reSym.FindAllString(l, -1) {
		if smtBuiltins[m] || strings.HasPrefix(m, "bv") {
			continue
		}
		out = append(out, m)
	}
	return out
}

// pruneQuery keeps the hypotheses connected to the goal through non-ubiquitous
// symbols within the given number of rounds.
func pruneQuery(prefix []string, goal string, rounds int, declared map[string]bool) []string {
	type ln struct {
		text  string
		syms  []string
		isDef bool
		name  string
	}
	lines := make([]ln, len(prefix))
	freq := map[string]int{}
	defOf := map[string]int{}
	for i, l := range prefix {
		x := ln{text: l}
		x.syms = lineSymbols(l)
		if strings.HasPrefix(l, "(define-fun ") {
			x.isDef = true
			f := strings.Fields(l)
			x.name = f[1]
			defOf[x.name] = i
		}
		seen := map[string]bool{}
		for _, s := range x.syms {
			if !seen[s] {
				seen[s] = true
				freq[s]++
			}
		}
		lines[i] = x
	}
	relevant := map[string]bool{}
	keep := make([]bool, len(lines))
	var addSyms func(syms []string)
	addSyms = func(syms []string) {
		for _, s := range syms {
			if relevant[s] {
				continue
			}
			relevant[s] = true
			if i, ok := defOf[s]; ok && !keep[i] {
				keep[i] = true
				addSyms(lines[i].syms)
			}
		}
	}
	addSyms(lineSymbols(goal))
	const ubiquitous = 20
	for r := 0; r < rounds; r++ {
		var newly []int
		for i, x := range lines {
			if keep[i] || x.isDef {
				continue
			}
			for _, s := range x.syms {
				if !declared[s] && defOf[s] == 0 {
					if _, isDef := defOf[s]; !isDef {
						continue
					}
				}
				if relevant[s] && freq[s] <= ubiquitous {
					newly = append(newly, i)
					break
				}
			}
		}
		if len(newly) == 0 {
			break
		}
		for _, i := range newly {
			keep[i] = true
		}
		for _, i := range newly {
			addSyms(lines[i].syms)
		}
	}
	var out []string
	for i, x := range lines {
		if keep[i] {
			out = append(out, x.text)
		}
	}
	return out
}
