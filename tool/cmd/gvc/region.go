package main

// Region merge: a generalisation of tryDiamond used for contracts flagged
// RegionMerge (emitted Equals methods: long chains of `(A && B) || (C && D &&
// call)` whose CFG is not a simple diamond). At a branch in block b whose
// immediate post-dominator J exists, the acyclic region between b and J is
// executed on both branches with every path stopped at J; the states that
// arrive are merged into one (guards g_k = conjunction of what path k
// assumed; values merged by ite chains; the merged state assumes g_1 || ... ||
// g_n). Paths that return inside the region simply end there. This keeps the
// number of paths linear in the number of fields instead of exponential.

import (
	"fmt"
	"os"
	"strings"

	"golang.org/x/tools/go/ssa"
)

type regionEnd struct {
	st   *State
	pred *ssa.BasicBlock
}

// ipdom: immediate post-dominator of b in fn (nil when only the virtual exit post-dominates it).
func ipdomOf(fn *ssa.Function, b *ssa.BasicBlock) *ssa.BasicBlock {
	n := len(fn.Blocks)
	// pdom sets as bitsets over block indices; virtual exit is implicit
	all := make([]bool, n)
	for i := range all {
		all[i] = true
	}
	// Edges into blocks that end in a Return are ignored: a path that returns
	// inside the region simply ends, the post-dominator sought is where the
	// continuing paths meet again.
	isRet := make([]bool, n)
	for i, blk := range fn.Blocks {
		if len(blk.Instrs) > 0 {
			if _, ok := blk.Instrs[len(blk.Instrs)-1].(*ssa.Return); ok {
				isRet[i] = true
			}
		}
	}
	succs := make([][]*ssa.BasicBlock, n)
	for i, blk := range fn.Blocks {
		for _, s := range blk.Succs {
			if !isRet[s.Index] {
				succs[i] = append(succs[i], s)
			}
		}
	}
	pd := make([][]bool, n)
	for i := range fn.Blocks {
		pd[i] = make([]bool, n)
		if len(succs[i]) == 0 {
			pd[i][i] = true
		} else {
			copy(pd[i], all)
		}
	}
	changed := true
	for changed {
		changed = false
		for i := n - 1; i >= 0; i-- {
			if len(succs[i]) == 0 {
				continue
			}
			nw := make([]bool, n)
			copy(nw, all)
			for _, s := range succs[i] {
				for k := 0; k < n; k++ {
					if !pd[s.Index][k] {
						nw[k] = false
					}
				}
			}
			nw[i] = true
			for k := 0; k < n; k++ {
				if nw[k] != pd[i][k] {
					changed = true
				}
			}
			pd[i] = nw
		}
	}
	// strict post-dominators of b; the immediate one is post-dominated by all others
	var cands []int
	for k := 0; k < n; k++ {
		if k != b.Index && pd[b.Index][k] {
			cands = append(cands, k)
		}
	}
	for _, c := range cands {
		ok := true
		for _, d := range cands {
			if d != c && !pd[c][d] {
				ok = false
			}
		}
		if ok {
			return fn.Blocks[c]
		}
	}
	return nil
}

func (ex *Exec) tryRegion(st *State, fc *FnCtx, b *ssa.BasicBlock, c Term) bool {
	if ex.ct == nil || !ex.ct.RegionMerge || ex.ct.NoMerge {
		return false
	}
	J := ipdomOf(fc.fn, b)
	if os.Getenv("GVC_DEBUG_MERGE") != "" {
		jn := -1
		if J != nil {
			jn = J.Index
		}
		fmt.Fprintf(os.Stderr, "region at b%d in %s: ipdom b%d\n", b.Index, fc.fn.Name(), jn)
	}
	if J == nil {
		return false
	}
	if _, isLoop := fc.loops[J]; isLoop {
		return false
	}
	// region blocks: reachable from b's successors without passing J
	region := map[*ssa.BasicBlock]bool{}
	var walk func(x *ssa.BasicBlock)
	walk = func(x *ssa.BasicBlock) {
		if x == J || region[x] {
			return
		}
		region[x] = true
		for _, s := range x.Succs {
			walk(s)
		}
	}
	for _, s := range b.Succs {
		walk(s)
	}
	if region[b] {
		return false // cyclic
	}
	for x := range region {
		if _, isLoop := fc.loops[x]; isLoop {
			return false
		}
		for _, in := range x.Instrs {
			switch in.(type) {
			case *ssa.Defer, *ssa.Go, *ssa.Select, *ssa.Next, *ssa.Range, *ssa.Panic:
				return false
			}
		}
	}
	base := len(st.log)
	var ends []regionEnd
	prevStop, prevEnds := ex.regionStop, ex.regionEnds
	ex.regionStop, ex.regionEnds = J, &ends
	s1 := st.clone()
	s1.assume(c)
	s1.pathTag = append(s1.pathTag, fmt.Sprintf("b%d+", b.Index))
	s2 := st.clone()
	s2.assume(not(c))
	s2.pathTag = append(s2.pathTag, fmt.Sprintf("b%d-", b.Index))
	func() {
		defer func() { ex.regionStop, ex.regionEnds = prevStop, prevEnds }()
		ex.runBlock(s1, fc, b.Succs[0], b)
		ex.runBlock(s2, fc, b.Succs[1], b)
	}()
	if len(ends) == 0 {
		return true
	}
	compatible := true
	for _, e := range ends {
		A := e.st
		if A.heap.epoch != st.heap.epoch || len(A.defers) != len(st.defers) || len(A.open) != len(st.open) || A.pendingAll || len(A.pendingBound) != 0 || len(st.pendingBound) != 0 {
			compatible = false
		}
	}
	if len(ends) == 1 || !compatible {
		for _, e := range ends {
			ex.paths++
			ex.runBlock(e.st, fc, J, e.pred)
		}
		return true
	}
	m := st.clone()
	guards := make([]Term, len(ends))
	for k, e := range ends {
		var conj []string
		for _, l := range e.st.log[base:] {
			if strings.HasPrefix(l, "(assert ") {
				conj = append(conj, l[len("(assert "):len(l)-1])
			} else {
				m.log = append(m.log, l)
			}
		}
		body := "true"
		if len(conj) == 1 {
			body = conj[0]
		} else if len(conj) > 1 {
			body = "(and " + strings.Join(conj, " ") + ")"
		}
		guards[k] = ex.define(m, "rg", Term{body, sBool})
	}
	var gs []string
	for _, g := range guards {
		gs = append(gs, g.S)
	}
	m.assume(Term{"(or " + strings.Join(gs, " ") + ")", sBool})
	chain := func(vals []Term) Term {
		r := vals[len(vals)-1]
		for k := len(vals) - 2; k >= 0; k-- {
			r = ite(guards[k], vals[k], r)
		}
		return r
	}
	same := func(vals []Term) bool {
		for _, v := range vals[1:] {
			if v.S != vals[0].S {
				return false
			}
		}
		return true
	}
	// cells
	cellSet := map[*Cell]bool{}
	for _, e := range ends {
		for k, v := range e.st.cellOf {
			m.cellOf[k] = v
		}
		for cell := range e.st.cells {
			cellSet[cell] = true
		}
	}
	for cell := range cellSet {
		vals := make([]Term, len(ends))
		for k, e := range ends {
			v, ok := e.st.cells[cell]
			if !ok {
				v = ex.u.zeroOf(cell.typ)
			}
			vals[k] = v
		}
		if same(vals) {
			m.cells[cell] = vals[0]
		} else {
			m.cells[cell] = ex.define(m, "rc", chain(vals))
		}
	}
	// heap components
	compSet := map[string]bool{}
	for _, e := range ends {
		for name := range e.st.heap.m {
			compSet[name] = true
		}
	}
	for name := range compSet {
		vals := make([]Term, len(ends))
		for k, e := range ends {
			v, ok := e.st.heap.m[name]
			if !ok {
				var so string
				for _, e2 := range ends {
					if v2, ok2 := e2.st.heap.m[name]; ok2 {
						so = v2.So
					}
				}
				_, vs, _ := arrayParts(so)
				v = ex.comp(e.st.heap, name, vs)
			}
			vals[k] = v
		}
		if same(vals) {
			m.heap.m[name] = vals[0]
		} else {
			m.heap.m[name] = ex.define(m, "rh", chain(vals))
		}
	}
	{
		vals := make([]Term, len(ends))
		for k, e := range ends {
			vals[k] = e.st.alloc
		}
		if !same(vals) {
			m.alloc = ex.define(m, "ra", chain(vals))
		} else {
			m.alloc = vals[0]
		}
		for k, e := range ends {
			vals[k] = e.st.heapBound
		}
		if !same(vals) {
			m.heapBound = ex.define(m, "rb", chain(vals))
		} else {
			m.heapBound = vals[0]
		}
	}
	// component bounds: keep only those equal on every path (otherwise the weakest known bound)
	for k, av := range ends[0].st.compBound {
		eq := true
		for _, e := range ends[1:] {
			if bv, ok := e.st.compBound[k]; !ok || bv.S != av.S {
				eq = false
			}
		}
		if eq {
			m.compBound[k] = av
		} else {
			vals := make([]Term, len(ends))
			okAll := true
			for i, e := range ends {
				bv, have := e.st.compBound[k]
				if !have {
					bv = e.st.baseAlloc
					if e.st.havocEpochBound.S != "" {
						bv = e.st.havocEpochBound
					}
				}
				if bv.S == "" {
					okAll = false
				}
				vals[i] = bv
			}
			if okAll {
				m.compBound[k] = ex.define(m, "rcb", chain(vals))
			} else {
				delete(m.compBound, k)
			}
		}
	}
	for k := range m.nonnil {
		for _, e := range ends {
			if !e.st.nonnil[k] {
				delete(m.nonnil, k)
			}
		}
	}
	for k := range m.unfolded {
		for _, e := range ends {
			if !e.st.unfolded[k] {
				delete(m.unfolded, k)
			}
		}
	}
	// SSA values defined inside the region
	for k0, e := range ends {
		for key, v := range e.st.env {
			if _, have := st.env[key]; have {
				continue
			}
			if _, done := m.env[key]; done {
				continue
			}
			vals := make([]Term, len(ends))
			okAll := true
			for i, e2 := range ends {
				v2, ok := e2.st.env[key]
				if !ok {
					v2 = v
				}
				t, isT := v2.(Term)
				if !isT {
					okAll = false
					break
				}
				vals[i] = t
			}
			if !okAll {
				if k0 == 0 {
					m.env[key] = v
				}
				continue
			}
			if same(vals) {
				m.env[key] = vals[0]
			} else {
				m.env[key] = ex.define(m, "rv", chain(vals))
			}
		}
	}
	// phis of J
	for _, in := range J.Instrs {
		phi, ok := in.(*ssa.Phi)
		if !ok {
			continue
		}
		vals := make([]Term, len(ends))
		for k, e := range ends {
			var v Val
			for i, p := range J.Preds {
				if p == e.pred {
					v = ex.val(e.st, phi.Edges[i])
				}
			}
			t, isT := v.(Term)
			if !isT {
				// cannot merge: continue the paths separately
				for _, e2 := range ends {
					ex.paths++
					ex.runBlock(e2.st, fc, J, e2.pred)
				}
				return true
			}
			vals[k] = t
		}
		if m.phiOverride == nil {
			m.phiOverride = map[*ssa.Phi]Val{}
		}
		if same(vals) {
			m.phiOverride[phi] = vals[0]
		} else {
			m.phiOverride[phi] = ex.define(m, "rphi", chain(vals))
		}
	}
	m.localMaps = ends[0].st.localMaps
	m.pathTag = append(m.pathTag, fmt.Sprintf("b%d#", b.Index))
	ex.merged++
	ex.runBlock(m, fc, J, ends[0].pred)
	return true
}
