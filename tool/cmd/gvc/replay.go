package main

// Replay of counterexamples on the real code: the model's values of the
// contract's declared replay inputs are substituted into a Go test template
// which is injected into the package with `go test -overlay` (nothing is
// written into /repo) and evaluates the violated clause concretely.

import (
	"bytes"
	"context"
	"encoding/json"
	"fmt"
	"math/big"
	"os"
	"os/exec"
	"path/filepath"
	"regexp"
	"strings"
	"text/template"
	"time"
)

type replaySpec struct {
	Template string
	Pkg      string            // package dir relative to repo
	Inputs   []replayInput     // name -> expression
}

type replayInput struct {
	Name string
	Expr string
}

// parseReplay: `replay <template> <pkgdir> k=expr; k2=expr2`
func parseReplay(text string) *replaySpec {
	f := strings.Fields(text)
	if len(f) < 2 {
		return nil
	}
	rs := &replaySpec{Template: f[0], Pkg: f[1]}
	rest := strings.TrimSpace(strings.TrimPrefix(strings.TrimSpace(strings.TrimPrefix(text, f[0])), f[1]))
	for _, kv := range strings.Split(rest, ";") {
		kv = strings.TrimSpace(kv)
		if kv == "" {
			continue
		}
		i := strings.Index(kv, "=")
		if i < 0 {
			continue
		}
		rs.Inputs = append(rs.Inputs, replayInput{strings.TrimSpace(kv[:i]), strings.TrimSpace(kv[i+1:])})
	}
	return rs
}

var reValue = regexp.MustCompile(`\(\s*(gvin_[A-Za-z0-9_]+)\s+([^()]+|\(_ bv\d+ \d+\)|\(- \d+\))\s*\)`)

// modelValues extracts the gvin_* input values from a get-value response.
func modelValues(out string) map[string]string {
	vals := map[string]string{}
	for _, m := range reValue.FindAllStringSubmatch(out, -1) {
		vals[strings.TrimPrefix(m[1], "gvin_")] = strings.TrimSpace(m[2])
	}
	return vals
}

// goLiteral renders an SMT value as a Go literal (signed for bit-vectors).
func goLiteral(v string) string {
	v = strings.TrimSpace(v)
	switch v {
	case "true", "false":
		return v
	}
	var bi *big.Int
	width := 0
	if strings.HasPrefix(v, "#x") {
		bi, _ = new(big.Int).SetString(v[2:], 16)
		width = 4 * (len(v) - 2)
	} else if strings.HasPrefix(v, "#b") {
		bi, _ = new(big.Int).SetString(v[2:], 2)
		width = len(v) - 2
	} else if strings.HasPrefix(v, "(_ bv") {
		var n string
		fmt.Sscanf(v, "(_ bv%s %d)", &n, &width)
		bi, _ = new(big.Int).SetString(n, 10)
	} else if strings.HasPrefix(v, "(- ") {
		return "-" + strings.TrimSuffix(strings.TrimPrefix(v, "(- "), ")")
	} else {
		return v
	}
	if bi == nil {
		return v
	}
	if width > 0 && bi.Bit(width-1) == 1 {
		bi.Sub(bi, new(big.Int).Lsh(big.NewInt(1), uint(width)))
	}
	return bi.String()
}

type replayOutcome struct {
	Attempted  bool              `json:"attempted"`
	Reproduced bool              `json:"reproduced"`
	Inputs     map[string]string `json:"inputs,omitempty"`
	Command    string            `json:"command,omitempty"`
	Output     string            `json:"output,omitempty"`
	TestFile   string            `json:"test_file,omitempty"`
	Why        string            `json:"why,omitempty"`
}

func runReplay(repo, verif string, rs *replaySpec, vals map[string]string, outDir, name string) replayOutcome {
	ro := replayOutcome{Inputs: map[string]string{}}
	tpath := filepath.Join(verif, "replay", rs.Template)
	tdata, err := os.ReadFile(tpath)
	if err != nil {
		ro.Why = "no replay template " + tpath
		return ro
	}
	data := map[string]string{}
	for _, in := range rs.Inputs {
		v, ok := vals[in.Name]
		if !ok {
			ro.Why = "model has no value for input " + in.Name
			return ro
		}
		data[in.Name] = goLiteral(v)
		ro.Inputs[in.Name] = data[in.Name]
	}
	tm, err := template.New("t").Parse(string(tdata))
	if err != nil {
		ro.Why = "bad template: " + err.Error()
		return ro
	}
	var buf bytes.Buffer
	if err := tm.Execute(&buf, data); err != nil {
		ro.Why = "template: " + err.Error()
		return ro
	}
	testFile := filepath.Join(outDir, sanitize(name)+"_replay_test.go")
	os.WriteFile(testFile, buf.Bytes(), 0o644)
	ro.TestFile = testFile
	ov := map[string]map[string]string{"Replace": {filepath.Join(repo, rs.Pkg, "zz_gvc_replay_test.go"): testFile}}
	ovData, _ := json.Marshal(ov)
	ovFile := filepath.Join(outDir, sanitize(name)+"_overlay.json")
	os.WriteFile(ovFile, ovData, 0o644)
	ctx, cancel := context.WithTimeout(context.Background(), 150*time.Second)
	defer cancel()
	cmd := exec.CommandContext(ctx, "bash", "-c", fmt.Sprintf("ulimit -v 8000000; cd %s && go test -overlay %s -vet=off -count=1 -timeout 60s -run '^TestGvcReplay$' ./%s", repo, ovFile, rs.Pkg))
	cmd.Env = append(os.Environ(), "GOFLAGS=-mod=mod", "GOPROXY=off", "GOSUMDB=off", "GOTOOLCHAIN=local")
	var out bytes.Buffer
	cmd.Stdout = &out
	cmd.Stderr = &out
	_ = cmd.Run()
	ro.Attempted = true
	ro.Command = fmt.Sprintf("cd %s && go test -overlay %s -vet=off -count=1 -timeout 60s -run '^TestGvcReplay$' ./%s", repo, ovFile, rs.Pkg)
	ro.Output = trimOut(out.String())
	ro.Reproduced = strings.Contains(out.String(), "GVC-REPRODUCED")
	return ro
}

// writeReplay writes the replay file for a failed obligation and returns the
// tail of the VIOLATION line.
func writeReplay(repo, verif, path, prop string, v *aggGoal, cs *ContractSet) string {
	rep := map[string]interface{}{
		"property":   prop,
		"obligation": v.Name,
		"function":   v.Fn,
		"status":     v.Status,
		"goal":       v.Text,
		"position":   v.Pos,
	}
	tail := " no-failing-input-found"
	if v.Fail != nil {
		rep["path"] = v.Fail.Goal.PathTag
		rep["solver_answers"] = v.Fail.Res.Raw
		rep["solver"] = v.Fail.Res.Solver
		if v.Fail.File != "" {
			// keep the query next to the replay file
			dst := strings.TrimSuffix(path, ".json") + ".smt2"
			if data, err := os.ReadFile(v.Fail.File); err == nil {
				os.WriteFile(dst, data, 0o644)
				rep["query"] = dst
			}
		}
		if v.Fail.Res.Status == "sat" || v.Fail.Res.Candidate {
			rep["model_is_candidate_from_relaxation"] = v.Fail.Res.Candidate
			vals := modelValues(v.Fail.Res.Model)
			rep["model_inputs"] = vals
			if ct := cs.ByFunc[v.Fn]; ct != nil && ct.Replay != nil {
				ro := runReplay(repo, verif, ct.Replay, vals, filepath.Dir(path), v.Name)
				rep["replay"] = ro
				if ro.Reproduced {
					tail = " reproduced-on-real-code"
				}
			} else {
				rep["replay"] = replayOutcome{Why: "no replay adaptor for this contract family"}
			}
		}
	}
	out, _ := json.MarshalIndent(rep, "", " ")
	os.WriteFile(path, out, 0o644)
	return tail
}
