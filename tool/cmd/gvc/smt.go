package main

// SMT term construction and the mapping from Go types to SMT sorts.
//
// Integers are machine integers: every Go integer type is a bit-vector of its
// exact width. Pointers, maps, channels and func values are Int references
// (null = 0). Slices, interfaces and Go struct types are SMT datatypes.

import (
	"fmt"
	"go/constant"
	"go/types"
	"math/big"
	"sort"
	"strings"
)

// Term is an SMT-LIB term with its sort.
type Term struct {
	S  string
	So string
}

func (t Term) String() string { return t.S }

const (
	sBool  = "Bool"
	sInt   = "Int"
	sStr   = "Str"
	sSlice = "Slice"
	sIface = "Iface"
	sBV64  = "(_ BitVec 64)"
	sBV8   = "(_ BitVec 8)"
)

func bvSort(n int) string { return fmt.Sprintf("(_ BitVec %d)", n) }

func isBV(so string) (int, bool) {
	var n int
	if _, err := fmt.Sscanf(so, "(_ BitVec %d)", &n); err == nil {
		return n, true
	}
	return 0, false
}

func arraySort(idx, elem string) string { return "(Array " + idx + " " + elem + ")" }

// arrayElem returns index and element sorts of an SMT array sort.
func arrayParts(so string) (string, string, bool) {
	if !strings.HasPrefix(so, "(Array ") {
		return "", "", false
	}
	body := so[len("(Array ") : len(so)-1]
	// split top-level into two s-exprs
	parts := splitSexprs(body)
	if len(parts) != 2 {
		return "", "", false
	}
	return parts[0], parts[1], true
}

func splitSexprs(s string) []string {
	var out []string
	depth := 0
	start := -1
	for i, c := range s {
		switch {
		case c == '(':
			if depth == 0 && start < 0 {
				start = i
			}
			depth++
		case c == ')':
			depth--
			if depth == 0 {
				out = append(out, s[start:i+1])
				start = -1
			}
		case c == ' ' || c == '\n' || c == '\t':
			if depth == 0 && start >= 0 {
				out = append(out, s[start:i])
				start = -1
			}
		default:
			if start < 0 {
				start = i
			}
		}
	}
	if start >= 0 {
		out = append(out, s[start:])
	}
	return out
}

func mk(so string, op string, args ...Term) Term {
	// constant folding of simple bit-vector arithmetic and equalities
	if len(args) == 2 {
		switch op {
		case "bvadd", "bvsub":
			a, wa, oka := bvConst(args[0])
			b, _, okb := bvConst(args[1])
			if oka && okb {
				r := new(big.Int)
				if op == "bvadd" {
					r.Add(a, b)
				} else {
					r.Sub(a, b)
				}
				return bvLit(wa, r)
			}
			if okb && b.Sign() == 0 {
				return args[0]
			}
			if oka && a.Sign() == 0 && op == "bvadd" {
				return args[1]
			}
		case "bvule", "bvult", "bvsle", "bvslt":
			a, wa, oka := bvConst(args[0])
			b, _, okb := bvConst(args[1])
			if oka && okb {
				if op[2] == 's' {
					h := new(big.Int).Lsh(big.NewInt(1), uint(wa-1))
					f := new(big.Int).Lsh(big.NewInt(1), uint(wa))
					if a.Cmp(h) >= 0 {
						a = new(big.Int).Sub(a, f)
					}
					if b.Cmp(h) >= 0 {
						b = new(big.Int).Sub(b, f)
					}
				}
				c := a.Cmp(b)
				if op == "bvule" || op == "bvsle" {
					return boolLit(c <= 0)
				}
				return boolLit(c < 0)
			}
		}
	}
	var b strings.Builder
	b.WriteByte('(')
	b.WriteString(op)
	for _, a := range args {
		b.WriteByte(' ')
		b.WriteString(a.S)
	}
	b.WriteByte(')')
	return Term{b.String(), so}
}

var (
	tTrue  = Term{"true", sBool}
	tFalse = Term{"false", sBool}
	tNull  = Term{"0", sInt}
)

func boolLit(b bool) Term {
	if b {
		return tTrue
	}
	return tFalse
}

func and(ts ...Term) Term {
	var xs []Term
	for _, t := range ts {
		if t.S == "true" {
			continue
		}
		if t.S == "false" {
			return tFalse
		}
		xs = append(xs, t)
	}
	if len(xs) == 0 {
		return tTrue
	}
	if len(xs) == 1 {
		return xs[0]
	}
	return mk(sBool, "and", xs...)
}

func or(ts ...Term) Term {
	var xs []Term
	for _, t := range ts {
		if t.S == "false" {
			continue
		}
		if t.S == "true" {
			return tTrue
		}
		xs = append(xs, t)
	}
	if len(xs) == 0 {
		return tFalse
	}
	if len(xs) == 1 {
		return xs[0]
	}
	return mk(sBool, "or", xs...)
}

func not(t Term) Term {
	switch t.S {
	case "true":
		return tFalse
	case "false":
		return tTrue
	}
	if strings.HasPrefix(t.S, "(not ") {
		return Term{t.S[5 : len(t.S)-1], sBool}
	}
	return mk(sBool, "not", t)
}

func implies(a, b Term) Term {
	if a.S == "true" {
		return b
	}
	if a.S == "false" || b.S == "true" {
		return tTrue
	}
	return mk(sBool, "=>", a, b)
}

func eq(a, b Term) Term {
	if a.S == b.S {
		return tTrue
	}
	return mk(sBool, "=", a, b)
}

func ite(c, a, b Term) Term {
	if c.S == "true" {
		return a
	}
	if c.S == "false" {
		return b
	}
	if a.S == b.S {
		return a
	}
	return mk(a.So, "ite", c, a, b)
}

func sel(arr, idx Term) Term {
	_, e, ok := arrayParts(arr.So)
	if !ok {
		panic("select on non-array sort " + arr.So + " term " + arr.S)
	}
	return mk(e, "select", arr, idx)
}

func store(arr, idx, v Term) Term { return mk(arr.So, "store", arr, idx, v) }

func bvLit(n int, v *big.Int) Term {
	m := new(big.Int).Lsh(big.NewInt(1), uint(n))
	x := new(big.Int).Mod(v, m)
	if x.Sign() < 0 {
		x.Add(x, m)
	}
	return Term{fmt.Sprintf("(_ bv%s %d)", x.String(), n), bvSort(n)}
}

func bv64(v int64) Term { return bvLit(64, big.NewInt(v)) }

func intLit(v int64) Term {
	if v < 0 {
		return Term{fmt.Sprintf("(- %d)", -v), sInt}
	}
	return Term{fmt.Sprintf("%d", v), sInt}
}

// ---------------------------------------------------------------------------
// Sort universe: Go types to SMT sorts, struct datatypes, type tags.

type structInfo struct {
	name   string // SMT datatype name
	typ    *types.Struct
	gotype types.Type // named type when there is one
	fields []string   // SMT sorts per field
}

type Universe struct {
	structs    map[string]*structInfo // key: canonical type string
	structList []*structInfo
	tags       map[string]int // dynamic type tags by canonical type string
	tagTypes   []types.Type
	strLits    map[string]int
	strList    []string
	embed      map[string]int // embedded array fields "struct|field" -> k
	boxSorts   map[string]bool
	extraDecls []string // spec prelude text
}

func newUniverse() *Universe {
	return &Universe{
		structs:  map[string]*structInfo{},
		tags:     map[string]int{},
		strLits:  map[string]int{},
		embed:    map[string]int{},
		boxSorts: map[string]bool{},
	}
}

func typeKey(t types.Type) string {
	return types.TypeString(t, nil)
}

func sanitize(s string) string {
	var b strings.Builder
	for _, c := range s {
		switch {
		case c >= 'a' && c <= 'z', c >= 'A' && c <= 'Z', c >= '0' && c <= '9', c == '_':
			b.WriteRune(c)
		case c == '.' || c == '/':
			b.WriteByte('_')
		case c == '*':
			b.WriteString("P")
		case c == '[':
			b.WriteString("L")
		case c == ']':
			b.WriteString("R")
		default:
			b.WriteByte('_')
		}
	}
	return b.String()
}

func (u *Universe) structOf(t types.Type) *structInfo {
	st, ok := t.Underlying().(*types.Struct)
	if !ok {
		panic("structOf: not a struct: " + t.String())
	}
	// one SMT datatype per underlying struct type: named types with the same
	// underlying struct are convertible and share the value representation
	key := typeKey(st)
	if si, ok := u.structs[key]; ok {
		return si
	}
	short := typeKey(t)
	if i := strings.LastIndex(short, "/"); i >= 0 && !strings.Contains(short, "{") {
		short = short[i+1:]
	}
	if len(short) > 40 {
		short = short[:40]
	}
	si := &structInfo{name: fmt.Sprintf("S%d_%s", len(u.structList), sanitize(short)), typ: st, gotype: t}
	u.structs[key] = si
	u.structList = append(u.structList, si)
	for i := 0; i < st.NumFields(); i++ {
		si.fields = append(si.fields, u.sortOf(st.Field(i).Type()))
	}
	return si
}

func (u *Universe) sortOf(t types.Type) string {
	switch tt := t.Underlying().(type) {
	case *types.Basic:
		switch tt.Kind() {
		case types.Bool, types.UntypedBool:
			return sBool
		case types.Int8, types.Uint8:
			return bvSort(8)
		case types.Int16, types.Uint16:
			return bvSort(16)
		case types.Int32, types.Uint32, types.Float32, types.UntypedRune:
			return bvSort(32)
		case types.Int, types.Uint, types.Int64, types.Uint64, types.Uintptr, types.Float64, types.UntypedInt, types.UntypedFloat:
			return sBV64
		case types.String, types.UntypedString:
			return sStr
		case types.UnsafePointer, types.UntypedNil:
			return sInt
		case types.Complex128, types.Complex64:
			return "Cplx"
		}
	case *types.Pointer, *types.Map, *types.Chan, *types.Signature:
		return sInt
	case *types.Slice:
		return sSlice
	case *types.Interface:
		return sIface
	case *types.Struct:
		return u.structOf(t).name
	case *types.Array:
		return arraySort(sBV64, u.sortOf(tt.Elem()))
	case *types.Tuple:
		return "Tuple"
	case *types.TypeParam:
		return sIface
	}
	panic("sortOf: unsupported type " + t.String())
}

func isSigned(t types.Type) bool {
	if b, ok := t.Underlying().(*types.Basic); ok {
		return b.Info()&types.IsUnsigned == 0
	}
	return true
}

func isFloat(t types.Type) bool {
	if b, ok := t.Underlying().(*types.Basic); ok {
		return b.Info()&types.IsFloat != 0
	}
	return false
}

func isIntegerType(t types.Type) bool {
	if b, ok := t.Underlying().(*types.Basic); ok {
		return b.Info()&types.IsInteger != 0
	}
	return false
}

// tagOf returns the dynamic type tag (>0) of a concrete type.
func (u *Universe) tagOf(t types.Type) int {
	k := typeKey(t)
	if n, ok := u.tags[k]; ok {
		return n
	}
	n := len(u.tagTypes) + 1
	u.tags[k] = n
	u.tagTypes = append(u.tagTypes, t)
	return n
}

func (u *Universe) strLit(s string) Term {
	n, ok := u.strLits[s]
	if !ok {
		n = len(u.strList)
		u.strLits[s] = n
		u.strList = append(u.strList, s)
	}
	return Term{fmt.Sprintf("strlit%d", n), sStr}
}

func isPointerLike(t types.Type) bool {
	switch t.Underlying().(type) {
	case *types.Pointer, *types.Map, *types.Chan, *types.Signature:
		return true
	case *types.Basic:
		return t.Underlying().(*types.Basic).Kind() == types.UnsafePointer
	}
	return false
}

// box/unbox: interface payloads are Int; non-pointer dynamic values are boxed.
func (u *Universe) box(v Term) Term {
	if v.So == sInt {
		return v
	}
	u.boxSorts[v.So] = true
	return mk(sInt, "box_"+sanitize(v.So), v)
}

func (u *Universe) unbox(p Term, so string) Term {
	if so == sInt {
		return p
	}
	u.boxSorts[so] = true
	return mk(so, "unbox_"+sanitize(so), p)
}

func mkIface(tag int, pv Term) Term {
	return mk(sIface, "mk-iface", intLit(int64(tag)), pv)
}

var nilIface = Term{"(mk-iface 0 0)", sIface}
var nilSlice = Term{"(mk-slice 0 (_ bv0 64) (_ bv0 64) (_ bv0 64))", sSlice}

// proj projects a constructor application syntactically when possible.
func proj(t Term, ctor string, i int, so, sel string) Term {
	if strings.HasPrefix(t.S, "("+ctor+" ") {
		parts := splitSexprs(t.S[1 : len(t.S)-1])
		if len(parts) > i+1 {
			return Term{parts[i+1], so}
		}
	}
	return mk(so, sel, t)
}

func ifaceTag(i Term) Term  { return proj(i, "mk-iface", 0, sInt, "i.tag") }
func ifacePv(i Term) Term   { return proj(i, "mk-iface", 1, sInt, "i.pv") }
func sliceBase(s Term) Term { return proj(s, "mk-slice", 0, sInt, "s.base") }
func sliceOff(s Term) Term  { return proj(s, "mk-slice", 1, sBV64, "s.off") }
func sliceLen(s Term) Term  { return proj(s, "mk-slice", 2, sBV64, "s.len") }
func sliceCap(s Term) Term  { return proj(s, "mk-slice", 3, sBV64, "s.cap") }

// bvConst parses a bit-vector literal.
func bvConst(t Term) (*big.Int, int, bool) {
	var n string
	var w int
	if !strings.HasPrefix(t.S, "(_ bv") {
		return nil, 0, false
	}
	if _, err := fmt.Sscanf(t.S, "(_ bv%s %d)", &n, &w); err != nil {
		return nil, 0, false
	}
	bi, ok := new(big.Int).SetString(n, 10)
	return bi, w, ok
}
func mkSlice(base, off, ln, cp Term) Term {
	return mk(sSlice, "mk-slice", base, off, ln, cp)
}

// zero value of a Go type.
func (u *Universe) zeroOf(t types.Type) Term {
	so := u.sortOf(t)
	return u.zeroOfSort(so, t)
}

func (u *Universe) zeroOfSort(so string, t types.Type) Term {
	switch so {
	case sBool:
		return tFalse
	case sInt:
		return tNull
	case sStr:
		return u.strLit("")
	case sSlice:
		return nilSlice
	case sIface:
		return nilIface
	}
	if n, ok := isBV(so); ok {
		return bvLit(n, big.NewInt(0))
	}
	if t != nil {
		switch tt := t.Underlying().(type) {
		case *types.Struct:
			si := u.structOf(t)
			if tt.NumFields() == 0 {
				return Term{"mk-" + si.name, si.name}
			}
			var args []Term
			for i := 0; i < tt.NumFields(); i++ {
				args = append(args, u.zeroOf(tt.Field(i).Type()))
			}
			return mk(si.name, "mk-"+si.name, args...)
		case *types.Array:
			ez := u.zeroOf(tt.Elem())
			return Term{"((as const " + so + ") " + ez.S + ")", so}
		}
	}
	panic("zeroOfSort: " + so)
}

func (u *Universe) fieldSel(si *structInfo, i int, v Term) Term {
	return mk(si.fields[i], fmt.Sprintf("%s.f%d", si.name, i), v)
}

func (u *Universe) structUpdate(si *structInfo, v Term, i int, nv Term) Term {
	var args []Term
	for j := range si.fields {
		if j == i {
			args = append(args, nv)
		} else {
			args = append(args, u.fieldSel(si, j, v))
		}
	}
	return mk(si.name, "mk-"+si.name, args...)
}

// constTerm translates a go/constant value of the given Go type.
func (u *Universe) constTerm(v constant.Value, t types.Type) Term {
	so := u.sortOf(t)
	if v == nil { // nil constant
		return u.zeroOfSort(so, t)
	}
	switch so {
	case sBool:
		return boolLit(constant.BoolVal(v))
	case sStr:
		return u.strLit(constant.StringVal(v))
	}
	if n, ok := isBV(so); ok {
		if isFloat(t) {
			f, _ := constant.Float64Val(v)
			if n == 64 {
				return bvLit(64, new(big.Int).SetUint64(float64bits(f)))
			}
			return bvLit(32, new(big.Int).SetUint64(uint64(float32bits(float32(f)))))
		}
		iv := constant.ToInt(v)
		bi, ok := new(big.Int).SetString(iv.ExactString(), 10)
		if !ok {
			panic("constTerm: bad int " + iv.ExactString())
		}
		return bvLit(n, bi)
	}
	panic("constTerm: unsupported constant of sort " + so)
}

// Prelude emits the fixed part of every query: sorts, datatypes, tags, string
// literal facts, box axioms.
func (u *Universe) Prelude() string {
	var b strings.Builder
	b.WriteString("(set-option :produce-models true)\n(set-logic ALL)\n")
	b.WriteString("(declare-sort Str 0)\n(declare-sort Cplx 0)\n")
	b.WriteString("(declare-fun str.len_ (Str) (_ BitVec 64))\n")
	b.WriteString("(declare-fun str.at_ (Str (_ BitVec 64)) (_ BitVec 8))\n")
	b.WriteString("(declare-fun str.cat_ (Str Str) Str)\n")
	b.WriteString("(declare-datatypes ((Slice 0)) (((mk-slice (s.base Int) (s.off (_ BitVec 64)) (s.len (_ BitVec 64)) (s.cap (_ BitVec 64))))))\n")
	b.WriteString("(declare-datatypes ((Iface 0)) (((mk-iface (i.tag Int) (i.pv Int)))))\n")
	// struct datatypes in creation order (dependencies are created first
	// because sortOf recurses before registering... registration happens
	// before recursion, so sort by dependency explicitly).
	emitted := map[string]bool{}
	var emit func(si *structInfo)
	emit = func(si *structInfo) {
		if emitted[si.name] {
			return
		}
		emitted[si.name] = true
		for _, fs := range si.fields {
			for _, other := range u.structList {
				if other != si && strings.Contains(fs, other.name) && (fs == other.name || strings.Contains(fs, other.name+")") || strings.Contains(fs, other.name+" ")) {
					emit(other)
				}
			}
		}
		if len(si.fields) == 0 {
			fmt.Fprintf(&b, "(declare-datatypes ((%s 0)) (((mk-%s))))\n", si.name, si.name)
			return
		}
		fmt.Fprintf(&b, "(declare-datatypes ((%s 0)) (((mk-%s", si.name, si.name)
		for i, fs := range si.fields {
			fmt.Fprintf(&b, " (%s.f%d %s)", si.name, i, fs)
		}
		b.WriteString("))))\n")
	}
	for _, si := range u.structList {
		emit(si)
	}
	var bs []string
	for so := range u.boxSorts {
		bs = append(bs, so)
	}
	sort.Strings(bs)
	for _, so := range bs {
		n := sanitize(so)
		fmt.Fprintf(&b, "(declare-fun box_%s (%s) Int)\n(declare-fun unbox_%s (Int) %s)\n", n, so, n, so)
	}
	for i, s := range u.strList {
		fmt.Fprintf(&b, "(declare-const strlit%d Str)\n(assert (= (str.len_ strlit%d) (_ bv%d 64)))\n", i, i, len(s))
		if len(s) <= 16 {
			for k := 0; k < len(s); k++ {
				fmt.Fprintf(&b, "(assert (= (str.at_ strlit%d (_ bv%d 64)) (_ bv%d 8)))\n", i, k, s[k])
			}
		}
	}
	if len(u.strList) > 1 {
		b.WriteString("(assert (distinct")
		for i := range u.strList {
			fmt.Fprintf(&b, " strlit%d", i)
		}
		b.WriteString("))\n")
	}
	for _, d := range u.extraDecls {
		b.WriteString(d)
		b.WriteString("\n")
	}
	return b.String()
}

func float64bits(f float64) uint64 { return mathFloat64bits(f) }
func float32bits(f float32) uint32 { return mathFloat32bits(f) }
