package main

// Solver portfolio: z3-new (5.1.0), z3 (4.8.12), cvc5, raced per obligation.

import (
	"bytes"
	"context"
	"fmt"
	"os"
	"os/exec"
	"path/filepath"
	"strings"
	"sync"
	"time"
)

type SolveResult struct {
	Status  string // unsat sat unknown
	Solver  string
	Seconds float64
	Model   string
	Raw     map[string]string
	Second  string // confirming solver (thorough tier)
}

type solverSpec struct {
	name string
	args func(file string, timeout time.Duration) []string
}

var solvers = []solverSpec{
	{"z3-new", func(f string, t time.Duration) []string {
		return []string{"z3-new", fmt.Sprintf("-T:%d", int(t.Seconds()+0.999)), f}
	}},
	{"z3", func(f string, t time.Duration) []string {
		return []string{"z3", fmt.Sprintf("-T:%d", int(t.Seconds()+0.999)), f}
	}},
	{"cvc5", func(f string, t time.Duration) []string {
		return []string{"cvc5", fmt.Sprintf("--tlimit=%d", t.Milliseconds()), f}
	}},
}

func runSolver(ctx context.Context, s solverSpec, file string, timeout time.Duration) (status, out string, secs float64) {
	a := s.args(file, timeout)
	cctx, cancel := context.WithTimeout(ctx, timeout+2*time.Second)
	defer cancel()
	cmd := exec.CommandContext(cctx, a[0], a[1:]...)
	var buf bytes.Buffer
	cmd.Stdout = &buf
	cmd.Stderr = &buf
	t0 := time.Now()
	_ = cmd.Run()
	secs = time.Since(t0).Seconds()
	out = buf.String()
	first := strings.TrimSpace(strings.SplitN(out, "\n", 2)[0])
	switch first {
	case "unsat", "sat":
		return first, out, secs
	}
	return "unknown", out, secs
}

// solve runs the portfolio on one query file.
func solve(file string, timeout time.Duration, confirm bool) SolveResult {
	res := SolveResult{Status: "unknown", Raw: map[string]string{}}
	quick := 4 * time.Second
	if timeout < quick {
		quick = timeout
	}
	st, out, secs := runSolver(context.Background(), solvers[0], file, quick)
	res.Raw[solvers[0].name] = trimOut(out)
	if st != "unknown" {
		res.Status, res.Solver, res.Seconds = st, solvers[0].name, secs
		if st == "sat" {
			res.Model = out
		}
	} else {
		// race all three with the full timeout
		type r struct {
			st, out, name string
			secs          float64
		}
		ctx, cancel := context.WithCancel(context.Background())
		ch := make(chan r, len(solvers))
		for _, s := range solvers {
			s := s
			go func() {
				a, b, c := runSolver(ctx, s, file, timeout)
				ch <- r{a, b, s.name, c}
			}()
		}
		for range solvers {
			x := <-ch
			if _, have := res.Raw[x.name]; !have || x.st != "unknown" {
				res.Raw[x.name] = trimOut(x.out)
			}
			if x.st != "unknown" && res.Status == "unknown" {
				res.Status, res.Solver, res.Seconds = x.st, x.name, x.secs+secs
				if x.st == "sat" {
					res.Model = x.out
				}
				cancel()
			}
		}
		cancel()
		if res.Status == "unknown" {
			res.Seconds = secs + timeout.Seconds()
		}
	}
	if confirm && res.Status == "unsat" {
		for _, s := range solvers {
			if s.name == res.Solver {
				continue
			}
			st2, _, _ := runSolver(context.Background(), s, file, timeout)
			if st2 == "unsat" {
				res.Second = s.name
				break
			}
			if st2 == "sat" {
				res.Second = "DISAGREE:" + s.name
				break
			}
		}
	}
	return res
}

func trimOut(s string) string {
	if len(s) > 4000 {
		return s[:4000] + "...[truncated]"
	}
	return s
}

type goalOutcome struct {
	Goal   *Goal
	Res    SolveResult
	File   string
	OK     bool
	Status string // discharged | failed | unknown | cover-ok | cover-vacuous
}

// discharge solves all goals of a function result in parallel.
func discharge(dir string, fr *FnResult, timeout time.Duration, confirm bool, sem chan struct{}, keepAll bool) []*goalOutcome {
	outs := make([]*goalOutcome, len(fr.Goals))
	var wg sync.WaitGroup
	declText := strings.Join(fr.Decls, "\n")
	for i, g := range fr.Goals {
		i, g := i, g
		o := &goalOutcome{Goal: g}
		outs[i] = o
		if g.Expect == "unsat" && g.Goal.S == "true" {
			o.OK, o.Status = true, "discharged"
			o.Res = SolveResult{Status: "unsat", Solver: "syntactic"}
			continue
		}
		wg.Add(1)
		go func() {
			defer wg.Done()
			sem <- struct{}{}
			defer func() { <-sem }()
			var b strings.Builder
			b.WriteString(fr.Prelude)
			b.WriteString(declText)
			b.WriteString("\n")
			for _, l := range g.Prefix {
				b.WriteString(l)
				b.WriteString("\n")
			}
			if g.Expect == "unsat" {
				fmt.Fprintf(&b, "(assert (not %s))\n", g.Goal.S)
			} else {
				fmt.Fprintf(&b, "(assert %s)\n", g.Goal.S)
			}
			b.WriteString("(check-sat)\n")
			if len(g.Inputs) > 0 {
				var names []string
				for _, in := range g.Inputs {
					names = append(names, "gvin_"+in.Name)
				}
				// definitions must precede check-sat: rebuild
				s := b.String()
				cut := strings.LastIndex(s, "(check-sat)")
				b.Reset()
				b.WriteString(s[:cut])
				for _, in := range g.Inputs {
					fmt.Fprintf(&b, "(define-fun gvin_%s () %s %s)\n", in.Name, in.T.So, in.T.S)
				}
				b.WriteString("(check-sat)\n")
				fmt.Fprintf(&b, "(get-value (%s))\n", strings.Join(names, " "))
			} else {
				b.WriteString("(get-model)\n")
			}
			file := filepath.Join(dir, fmt.Sprintf("%s_%d.smt2", sanitize(g.Name), i))
			if len(file) > 200 {
				file = filepath.Join(dir, fmt.Sprintf("g_%d_%d.smt2", len(g.Name), i))
			}
			if b.Len() > 4<<20 {
				o.Status = "unknown"
				o.Res = SolveResult{Status: "unknown", Raw: map[string]string{"gvc": "VC size cap exceeded"}}
				return
			}
			os.WriteFile(file, []byte(b.String()), 0o644)
			o.File = file
			to := timeout
			if g.Expect == "sat" {
				to = 5 * time.Second
			}
			o.Res = solve(file, to, confirm && g.Expect == "unsat")
			switch {
			case g.Expect == "unsat" && o.Res.Status == "unsat":
				o.OK, o.Status = true, "discharged"
			case g.Expect == "unsat" && o.Res.Status == "sat":
				o.Status = "failed"
			case g.Expect == "unsat":
				o.Status = "unknown"
			case g.Expect == "sat" && o.Res.Status == "unsat":
				o.Status = "cover-vacuous"
			default:
				o.OK, o.Status = true, "cover-ok"
			}
			if o.OK && !keepAll {
				os.Remove(file)
			}
		}()
	}
	wg.Wait()
	return outs
}
