package main

// Solver portfolio: z3-new (5.1.0), z3 (4.8.12), cvc5, raced per obligation.

import (
	"bytes"
	"context"
	"fmt"
	"os"
	"os/exec"
	"path/filepath"
	"strings"
	"sync"
	"time"
)

type SolveResult struct {
	Status  string // unsat sat unknown
	Solver  string
	Seconds float64
	Model   string
	Raw     map[string]string
	Second  string // confirming solver (thorough tier)
	Candidate bool // model comes from the quantifier-free relaxation
}

type solverSpec struct {
	name string
	args func(file string, timeout time.Duration) []string
}

func z3cfg(bin string, opts ...string) func(f string, t time.Duration) []string {
	return func(f string, t time.Duration) []string {
		a := []string{bin, fmt.Sprintf("-T:%d", int(t.Seconds()+0.999))}
		a = append(a, opts...)
		return append(a, f)
	}
}

// The portfolio: quantifier instantiation is sensitive to search order, so
// several configurations of z3 5.1.0 are raced besides z3 4.8.12 and cvc5.
var solvers = []solverSpec{
	{"z3-new", z3cfg("z3-new")},
	{"z3", z3cfg("z3")},
	{"cvc5", func(f string, t time.Duration) []string {
		return []string{"cvc5", fmt.Sprintf("--tlimit=%d", t.Milliseconds()), f}
	}},
	{"z3-new/relevancy0", z3cfg("z3-new", "smt.relevancy=0")},
	{"z3-new/seed3", z3cfg("z3-new", "smt.random_seed=3")},
}

// procSem bounds the number of concurrently running solver processes.
var procSem = make(chan struct{}, 16)

func runSolver(ctx context.Context, s solverSpec, file string, timeout time.Duration) (status, out string, secs float64) {
	a := s.args(file, timeout)
	cctx, cancel := context.WithTimeout(ctx, timeout+2*time.Second)
	defer cancel()
	procSem <- struct{}{}
	defer func() { <-procSem }()
	if ctx.Err() != nil {
		return "unknown", "cancelled", 0
	}
	cmd := exec.CommandContext(cctx, a[0], a[1:]...)
	var buf bytes.Buffer
	cmd.Stdout = &buf
	cmd.Stderr = &buf
	t0 := time.Now()
	_ = cmd.Run()
	secs = time.Since(t0).Seconds()
	out = buf.String()
	for _, l := range strings.Split(out, "\n") {
		l = strings.TrimSpace(l)
		if l == "" || strings.HasPrefix(l, "WARNING") || strings.HasPrefix(l, "(warning") {
			continue
		}
		switch l {
		case "unsat", "sat":
			return l, out, secs
		}
		break
	}
	return "unknown", out, secs
}

// solve runs the portfolio on one query file.
func solve(file string, timeout time.Duration, confirm bool) SolveResult {
	res := SolveResult{Status: "unknown", Raw: map[string]string{}}
	quick := 2 * time.Second
	if timeout < quick {
		quick = timeout
	}
	st, out, secs := runSolver(context.Background(), solvers[0], file, quick)
	res.Raw[solvers[0].name] = trimOut(out)
	if st != "unknown" {
		res.Status, res.Solver, res.Seconds = st, solvers[0].name, secs
		if st == "sat" {
			res.Model = out
		}
	} else {
		// race all three with the full timeout
		type r struct {
			st, out, name string
			secs          float64
		}
		ctx, cancel := context.WithCancel(context.Background())
		ch := make(chan r, len(solvers))
		for _, s := range solvers {
			s := s
			go func() {
				a, b, c := runSolver(ctx, s, file, timeout)
				ch <- r{a, b, s.name, c}
			}()
		}
		for range solvers {
			x := <-ch
			if _, have := res.Raw[x.name]; !have || x.st != "unknown" {
				res.Raw[x.name] = trimOut(x.out)
			}
			if x.st != "unknown" && res.Status == "unknown" {
				res.Status, res.Solver, res.Seconds = x.st, x.name, x.secs+secs
				if x.st == "sat" {
					res.Model = x.out
				}
				cancel()
			}
		}
		cancel()
		if res.Status == "unknown" {
			res.Seconds = secs + timeout.Seconds()
		}
	}
	if confirm && res.Status == "unsat" {
		for _, s := range solvers {
			if strings.SplitN(s.name, "/", 2)[0] == strings.SplitN(res.Solver, "/", 2)[0] {
				continue
			}
			// confirmation is best effort: a second solver gets 20 s per obligation
			ct := timeout
			if ct > 20*time.Second {
				ct = 20 * time.Second
			}
			st2, _, _ := runSolver(context.Background(), s, file, ct)
			if st2 == "unsat" {
				res.Second = s.name
				break
			}
			if st2 == "sat" {
				res.Second = "DISAGREE:" + s.name
				break
			}
		}
	}
	return res
}

func trimOut(s string) string {
	if len(s) > 4000 {
		return s[:4000] + "...[truncated]"
	}
	return s
}

type goalOutcome struct {
	Goal   *Goal
	Res    SolveResult
	File   string
	OK     bool
	Status string // discharged | failed | unknown | cover-ok | cover-vacuous
}

// discharge solves all goals of a function result in parallel.
func discharge(dir string, fr *FnResult, timeout time.Duration, confirm bool, sem chan struct{}, keepAll bool) []*goalOutcome {
	outs := make([]*goalOutcome, len(fr.Goals))
	var wg sync.WaitGroup
	declText := strings.Join(fr.Decls, "\n")
	declNames := map[string]bool{}
	for _, d := range fr.Decls {
		f := strings.Fields(d)
		if len(f) > 1 {
			declNames[f[1]] = true
		}
	}
	for i, g := range fr.Goals {
		i, g := i, g
		o := &goalOutcome{Goal: g}
		outs[i] = o
		if g.Expect == "unsat" && g.Goal.S == "true" {
			o.OK, o.Status = true, "discharged"
			o.Res = SolveResult{Status: "unsat", Solver: "syntactic"}
			continue
		}
		wg.Add(1)
		go func() {
			defer wg.Done()
			sem <- struct{}{}
			defer func() { <-sem }()
			var b strings.Builder
			b.WriteString(fr.Prelude)
			b.WriteString(declText)
			b.WriteString("\n")
			for _, l := range g.Prefix {
				b.WriteString(l)
				b.WriteString("\n")
			}
			if g.Expect == "unsat" {
				fmt.Fprintf(&b, "(assert (not %s))\n", g.Goal.S)
			} else {
				fmt.Fprintf(&b, "(assert %s)\n", g.Goal.S)
			}
			b.WriteString("(check-sat)\n")
			if len(g.Inputs) > 0 {
				var names []string
				for _, in := range g.Inputs {
					names = append(names, "gvin_"+in.Name)
				}
				// definitions must precede check-sat: rebuild
				s := b.String()
				cut := strings.LastIndex(s, "(check-sat)")
				b.Reset()
				b.WriteString(s[:cut])
				for _, in := range g.Inputs {
					fmt.Fprintf(&b, "(define-fun gvin_%s () %s %s)\n", in.Name, in.T.So, in.T.S)
				}
				b.WriteString("(check-sat)\n")
				fmt.Fprintf(&b, "(get-value (%s))\n", strings.Join(names, " "))
			} else {
				b.WriteString("(get-model)\n")
			}
			file := filepath.Join(dir, fmt.Sprintf("%s_%d.smt2", sanitize(g.Name), i))
			if len(file) > 200 {
				file = filepath.Join(dir, fmt.Sprintf("g_%d_%d.smt2", len(g.Name), i))
			}
			if b.Len() > 4<<20 {
				o.Status = "unknown"
				o.Res = SolveResult{Status: "unknown", Raw: map[string]string{"gvc": "VC size cap exceeded"}}
				return
			}
			os.WriteFile(file, []byte(b.String()), 0o644)
			o.File = file
			to := timeout
			if g.Expect == "sat" {
				// vacuity guard: the quantifier-free relaxation decides most
				// covers at once; unsat there means unsat for the full query.
				var rb strings.Builder
				for _, l := range strings.Split(b.String(), "\n") {
					if strings.Contains(l, "(forall ") || strings.Contains(l, "(exists ") {
						continue
					}
					rb.WriteString(l + "\n")
				}
				rfile := strings.TrimSuffix(file, ".smt2") + "_relaxed.smt2"
				os.WriteFile(rfile, []byte(rb.String()), 0o644)
				rs, rout, rsecs := runSolver(context.Background(), solvers[0], rfile, 3*time.Second)
				os.Remove(rfile)
				if rs == "unsat" {
					o.Res = SolveResult{Status: "unsat", Solver: "z3-new(relaxed)", Seconds: rsecs, Raw: map[string]string{"z3-new": trimOut(rout)}}
					o.Status = "cover-vacuous"
					return
				}
				st1, out1, secs1 := runSolver(context.Background(), solvers[0], file, 1*time.Second)
				o.Res = SolveResult{Status: st1, Solver: "z3-new", Seconds: rsecs + secs1, Raw: map[string]string{"z3-new": trimOut(out1)}}
				if st1 == "unsat" {
					o.Status = "cover-vacuous"
					return
				}
				o.OK, o.Status = true, "cover-ok"
				if !keepAll {
					os.Remove(file)
				}
				return
			}
			if g.Expect == "unsat" {
				// stage 0: relevance-pruned query (unsat there is unsat here)
				for _, rounds := range []int{2} {
					pl := pruneQuery(g.Prefix, g.Goal.S, rounds, declNames)
					var pb strings.Builder
					pb.WriteString(fr.Prelude)
					pb.WriteString(declText)
					pb.WriteString("\n")
					for _, l := range pl {
						pb.WriteString(l)
						pb.WriteString("\n")
					}
					fmt.Fprintf(&pb, "(assert (not %s))\n(check-sat)\n", g.Goal.S)
					pfile := strings.TrimSuffix(file, ".smt2") + fmt.Sprintf("_pruned%d.smt2", rounds)
					os.WriteFile(pfile, []byte(pb.String()), 0o644)
					ps, pout, psecs := runSolver(context.Background(), solvers[0], pfile, 2*time.Second)
					if !keepAll {
						os.Remove(pfile)
					}
					if ps == "unsat" {
						o.Res = SolveResult{Status: "unsat", Solver: fmt.Sprintf("z3-new(pruned%d)", rounds), Seconds: psecs, Raw: map[string]string{"z3-new": trimOut(pout)}}
						o.OK, o.Status = true, "discharged"
						if !keepAll {
							os.Remove(file)
						}
						return
					}
				}
			}
			o.Res = solve(file, to, confirm && g.Expect == "unsat")
			switch {
			case g.Expect == "unsat" && o.Res.Status == "unsat":
				o.OK, o.Status = true, "discharged"
			case g.Expect == "unsat" && o.Res.Status == "sat":
				o.Status = "failed"
			case g.Expect == "unsat":
				o.Status = "unknown"
				// candidate counterexample: drop quantified hypotheses (a
				// weakening); a model of the relaxation is only a candidate
				// and is confirmed or refuted by replay on the real code.
				var rb strings.Builder
				for _, l := range strings.Split(b.String(), "\n") {
					if strings.Contains(l, "(forall ") || strings.Contains(l, "(exists ") {
						if strings.HasPrefix(l, "(assert (not ") {
							// the goal itself is quantified: keep (negated forall = exists)
							rb.WriteString(l + "\n")
						}
						continue
					}
					rb.WriteString(l + "\n")
				}
				rfile := strings.TrimSuffix(file, ".smt2") + "_relaxed.smt2"
				os.WriteFile(rfile, []byte(rb.String()), 0o644)
				rs, rout, _ := runSolver(context.Background(), solvers[0], rfile, 5*time.Second)
				if rs == "sat" {
					o.Res.Model = rout
					o.Res.Candidate = true
					o.Res.Raw["relaxed(z3-new)"] = trimOut(rout)
				}
				if !keepAll {
					os.Remove(rfile)
				}
			case g.Expect == "sat" && o.Res.Status == "unsat":
				o.Status = "cover-vacuous"
			default:
				o.OK, o.Status = true, "cover-ok"
			}
			if o.OK && !keepAll {
				os.Remove(file)
			}
		}()
	}
	wg.Wait()
	return outs
}
