package main

// Symbolic state: private local cells, component heap, path log.

import (
	"fmt"
	"go/types"
	"sort"
	"strings"
	"sync/atomic"

	"golang.org/x/tools/go/ssa"
)

// Val is a symbolic value of an SSA value: Term, *Ptr, Tuple, *Closure, *RangeIter.
type Val interface{}

type Tuple []Val

type Closure struct {
	Fn       *ssa.Function
	Bindings []Val
	Recv     Val // bound method receiver (for $bound)
}

type RangeIter struct {
	Map   Term
	KT    types.Type
	VT    types.Type
	IsStr bool
	Instr *ssa.Range
}

// Cell is a private (non-escaping) local variable.
type Cell struct {
	id   int
	typ  types.Type
	name string
}

type PathEl struct {
	Field int
	Idx   *Term // array index (BV64) when non-nil
}

// Ptr is a symbolic address.
type Ptr struct {
	Cell   *Cell
	Ref    Term       // Int reference of the base object (when Cell == nil)
	Obj    types.Type // type of the base object (elem type when ArrObj)
	ArrObj bool       // base object is an array object in component A|<elem>
	Path   []PathEl
}

func (p *Ptr) extend(el PathEl) *Ptr {
	np := *p
	np.Path = append(append([]PathEl{}, p.Path...), el)
	return &np
}

// HeapView is a snapshot of all heap components.
type HeapView struct {
	m     map[string]Term
	epoch int
}

func (h *HeapView) clone() *HeapView {
	n := &HeapView{m: make(map[string]Term, len(h.m)), epoch: h.epoch}
	for k, v := range h.m {
		n.m[k] = v
	}
	return n
}

type Goal struct {
	Name    string // obligation name
	Kind    string
	Fn      string
	Props   []string
	Pos     string
	Text    string // human-readable goal
	Prefix  []string
	Goal    Term
	Expect  string // "unsat" normally, "sat" for cover
	Clause  *Clause
	Inputs  []goalInput // replay inputs (name, term) reported from a model
	PathTag string
}

type goalInput struct {
	Name string
	T    Term
}

type State struct {
	log      []string
	env      map[ssa.Value]Val
	cells    map[*Cell]Term
	cellOf   map[*ssa.Alloc]*Cell
	heap     *HeapView
	alloc    Term
	heapBound Term // alloc counter at the last event that may have put references into the heap
	nonnil   map[string]bool
	open     map[*ssa.BasicBlock]*loopCtx
	defers   []deferred
	pathTag  []string
	dead     bool
	entry    *entryInfo
	inlineDepth int
	pendingAll bool
	havocEpochBound Term // alloc counter at the last whole-heap havoc
	unfolded map[string]bool // opaque spec applications whose defining equation is in the log
	localMaps []localMap // maps made by this function whose reference never leaves it
	calleeErrs []Term    // error values returned by callees on this path (clause errsfromcallees)
	compBound map[string]Term // per component: alloc counter when it was last written or havoc'd
	pendingBound []string
	baseAlloc Term
	phiOverride map[*ssa.Phi]Val // phi values fixed by an if-converted diamond
	visited  map[*ssa.Range]Term // ghost: keys already yielded by a map range
	lastRange *ssa.Range
}

// niReturn: one return path of a function under a non-interference contract.
type niReturn struct {
	log  []string
	outs []string
	tag  string
}

type localMap struct {
	ref  Term
	k, v types.Type
}

type deferred struct {
	call *ssa.CallCommon
	args []Val
	fnv  Val
}

type loopCtx struct {
	variant []Term
}

type entryInfo struct {
	params map[string]Val // param name -> entry value
	ptypes map[string]types.Type
	heap   *HeapView
	alloc  Term
	lets   map[string]tv
	measure []Term
	modRefs map[string][]Term
}

func (st *State) clone() *State {
	n := &State{
		log:    append([]string(nil), st.log...),
		env:    make(map[ssa.Value]Val, len(st.env)),
		cells:  make(map[*Cell]Term, len(st.cells)),
		cellOf: make(map[*ssa.Alloc]*Cell, len(st.cellOf)),
		heap:   st.heap.clone(),
		alloc:  st.alloc,
		heapBound: st.heapBound,
		nonnil: make(map[string]bool, len(st.nonnil)),
		open:   make(map[*ssa.BasicBlock]*loopCtx, len(st.open)),
		defers: append([]deferred(nil), st.defers...),
		pathTag: append([]string(nil), st.pathTag...),
		entry:  st.entry,
		inlineDepth: st.inlineDepth,
		visited: make(map[*ssa.Range]Term, len(st.visited)),
		compBound: make(map[string]Term, len(st.compBound)),
		pendingBound: append([]string(nil), st.pendingBound...),
		baseAlloc: st.baseAlloc,
		localMaps: append([]localMap(nil), st.localMaps...),
		calleeErrs: append([]Term(nil), st.calleeErrs...),
		unfolded: make(map[string]bool, len(st.unfolded)),
		havocEpochBound: st.havocEpochBound,
		lastRange: st.lastRange,
	}
	if len(st.phiOverride) > 0 {
		n.phiOverride = map[*ssa.Phi]Val{}
		for k, v := range st.phiOverride {
			n.phiOverride[k] = v
		}
	}
	for k, v := range st.visited {
		n.visited[k] = v
	}
	for k, v := range st.compBound {
		n.compBound[k] = v
	}
	for k, v := range st.unfolded {
		n.unfolded[k] = v
	}
	for k, v := range st.env {
		n.env[k] = v
	}
	for k, v := range st.cells {
		n.cells[k] = v
	}
	for k, v := range st.cellOf {
		n.cellOf[k] = v
	}
	for k, v := range st.nonnil {
		n.nonnil[k] = v
	}
	for k, v := range st.open {
		n.open[k] = v
	}
	return n
}

func (st *State) assume(t Term) {
	if t.S == "true" {
		return
	}
	st.log = append(st.log, "(assert "+t.S+")")
}

// ---------------------------------------------------------------------------

// Exec holds everything shared by the verification of one function.
type Exec struct {
	u       *Universe
	prog    *Program
	cs      *ContractSet
	fn      *ssa.Function
	ct      *Contract
	counter int
	decls   []string
	declSet map[string]bool
	goals   []*Goal
	unsupported []string
	inlined map[string]bool
	usedContracts map[string]bool
	havocAll int
	paths   int
	maxPaths int
	prop    string
	nopanic bool
	loops   map[*ssa.BasicBlock]*loopInfo
	loopOrd map[*ssa.BasicBlock]int
	goalNames map[string]int
	notes   []string
	callOrd map[string]int
	compIDs map[string]int
	compSorts map[string]string
	fnIDs map[*ssa.Function]int
	closures map[string]*Closure
	fieldRefs map[int]fieldRefInfo
	implPreds map[string]*types.Interface
	uncontracted map[string]bool
	specErrs []string
	cellCount int
	inlineClosures bool
	allocHook func(st *State, fc *FnCtx, in ssa.Instruction, n Term, elem types.Type)
	findings  map[string][]Finding
	curEnv    *SpecEnv
	pendingFn *Term
	pendingSelf *tv
	pendingLocals func(name string) (tv, bool)
	constGlobals []string
	usedAxioms map[string]bool
	assumedClauses map[string]bool
	niReturns   []niReturn
	niSecrets   map[string][]Term // component -> references whose contents are secret
	diamondStop *ssa.BasicBlock
	diamondEnds *[]*State
	regionStop  *ssa.BasicBlock
	regionEnds  *[]regionEnd
	merged      int
	unfolded map[string]bool // opaque spec function applications whose defining equation was emitted
	reified map[string]*Ptr // symbolic field addresses that were turned into reference terms
}

func (ex *Exec) arrComp(h *HeapView, elem types.Type) Term {
	return ex.comp(h, compArrT(elem), arraySort(sBV64, ex.u.sortOf(elem)))
}
func (ex *Exec) mapPComp(h *HeapView, k, v types.Type) Term {
	return ex.comp(h, compMapPT(k, v), arraySort(ex.u.sortOf(k), sBool))
}
func (ex *Exec) mapVComp(h *HeapView, k, v types.Type) Term {
	return ex.comp(h, compMapVT(k, v), arraySort(ex.u.sortOf(k), ex.u.sortOf(v)))
}
func (ex *Exec) mapLComp(h *HeapView) Term { return ex.comp(h, compMapL(), sBV64) }

func (ex *Exec) fresh(prefix string, so string) Term {
	ex.counter++
	name := fmt.Sprintf("%s_%d", prefix, ex.counter)
	ex.declare(name, so)
	return Term{name, so}
}

func (ex *Exec) declare(name, so string) {
	if ex.declSet[name] {
		return
	}
	ex.declSet[name] = true
	ex.decls = append(ex.decls, fmt.Sprintf("(declare-const %s %s)", name, so))
}

// define introduces a named abbreviation for a term to keep VCs linear in size.
func (ex *Exec) define(st *State, prefix string, t Term) Term {
	if len(t.S) < 24 || strings.HasPrefix(t.S, "(mk-slice ") || strings.HasPrefix(t.S, "(mk-iface ") {
		return t
	}
	ex.counter++
	name := fmt.Sprintf("%s_%d", prefix, ex.counter)
	st.log = append(st.log, fmt.Sprintf("(define-fun %s () %s %s)", name, t.So, t.S))
	if p, ok := ex.reified[t.S]; ok {
		ex.reified[name] = p
	}
	return Term{name, t.So}
}

// comp returns the current array term of a heap component in a view.
func (ex *Exec) comp(h *HeapView, name string, valSort string) Term {
	if t, ok := h.m[name]; ok {
		return t
	}
	id, ok := ex.compIDs[name]
	if !ok {
		id = len(ex.compIDs) + 1
		ex.compIDs[name] = id
	}
	short := sanitize(name)
	if len(short) > 48 {
		short = short[len(short)-48:]
	}
	cn := fmt.Sprintf("H%d_%d_%s", h.epoch, id, short)
	so := arraySort(sInt, valSort)
	ex.compSorts[name] = valSort
	ex.declare(cn, so)
	t := Term{cn, so}
	h.m[name] = t
	return t
}

// Component names are independent of the SMT universe: they are built from
// canonical type keys so that inferred mod-sets can be shared.
func skey(t types.Type) string {
	switch tt := t.Underlying().(type) {
	case *types.Basic:
		switch tt.Kind() {
		case types.Bool, types.UntypedBool:
			return "Bool"
		case types.Int8, types.Uint8:
			return "bv8"
		case types.Int16, types.Uint16:
			return "bv16"
		case types.Int32, types.Uint32, types.Float32, types.UntypedRune:
			return "bv32"
		case types.String, types.UntypedString:
			return "Str"
		case types.UnsafePointer, types.UntypedNil:
			return "Int"
		case types.Complex128, types.Complex64:
			return "Cplx"
		}
		return "bv64"
	case *types.Pointer:
		return "P<" + typeKey(tt.Elem()) + ">"
	case *types.Map:
		return "M<" + typeKey(tt) + ">"
	case *types.Chan, *types.Signature:
		return "Fn"
	case *types.Slice:
		return "Sl<" + skey(tt.Elem()) + ">"
	case *types.Interface, *types.TypeParam:
		if n, ok := t.(*types.Named); ok {
			return "I<" + typeKey(n) + ">"
		}
		return "Iface"
	case *types.Struct:
		return "S<" + structKey(t) + ">"
	case *types.Array:
		return "Arr<" + skey(tt.Elem()) + ">"
	}
	return "?" + t.String()
}

func structKey(t types.Type) string {
	if _, named := t.(*types.Named); named {
		return typeKey(t)
	}
	if a, ok := t.(*types.Alias); ok {
		return structKey(types.Unalias(a))
	}
	return typeKey(t.Underlying())
}

func compFieldT(t types.Type, i int) string { return fmt.Sprintf("F|%s|%d", structKey(t), i) }
func compArrT(elem types.Type) string      { return "A|" + skey(elem) }
func compCellT(t types.Type) string        { return "C|" + skey(t) }
func compMapPT(k, v types.Type) string     { return "MP|" + skey(k) + "|" + skey(v) }
func compMapVT(k, v types.Type) string     { return "MV|" + skey(k) + "|" + skey(v) }
func compMapL() string                     { return "ML" }
func compGhost(n string) string {
	if a, ok := ghostAliases[n]; ok {
		return compFieldT(a.t, a.idx)
	}
	return "G|" + n
}

// ghostAliases: representation declarations (`ghostalias rpos T.field`): the
// ghost component of that name IS the field component, so a contract that
// modifies the abstract state modifies the concrete field and vice versa.
var ghostAliases = map[string]compInfo{}

// embRef is the reference of an array embedded as field k-th embedded array
// field: negative, injective in (r, k).
func (ex *Exec) embRef(si *structInfo, field int, r Term) Term {
	key := fmt.Sprintf("%s|%d", si.name, field)
	k, ok := ex.u.embed[key]
	if !ok {
		k = len(ex.u.embed) + 1
		ex.u.embed[key] = k
	}
	// -(r*1024 + k)
	return Term{fmt.Sprintf("(- (+ (* %s 1024) %d))", r.S, k), sInt}
}

// readPath projects a value along a path of fields / array indices.
func (ex *Exec) readPath(v Term, t types.Type, path []PathEl) (Term, types.Type) {
	for _, el := range path {
		switch tt := t.Underlying().(type) {
		case *types.Struct:
			si := ex.u.structOf(t)
			v = ex.u.fieldSel(si, el.Field, v)
			t = tt.Field(el.Field).Type()
		case *types.Array:
			v = sel(v, *el.Idx)
			t = tt.Elem()
		default:
			panic("readPath: bad path through " + t.String())
		}
	}
	return v, t
}

func (ex *Exec) writePath(v Term, t types.Type, path []PathEl, nv Term) Term {
	if len(path) == 0 {
		return nv
	}
	el := path[0]
	switch tt := t.Underlying().(type) {
	case *types.Struct:
		si := ex.u.structOf(t)
		inner := ex.u.fieldSel(si, el.Field, v)
		return ex.u.structUpdate(si, v, el.Field, ex.writePath(inner, tt.Field(el.Field).Type(), path[1:], nv))
	case *types.Array:
		inner := sel(v, *el.Idx)
		return store(v, *el.Idx, ex.writePath(inner, tt.Elem(), path[1:], nv))
	}
	panic("writePath: bad path through " + t.String())
}

// slot resolves a Ref-based pointer to (component, ref, value type of the slot, remaining path).
func (ex *Exec) slot(p *Ptr) (comp string, valSort string, ref Term, slotType types.Type, rest []PathEl, whole bool) {
	if p.ArrObj {
		es := ex.u.sortOf(p.Obj)
		return compArrT(p.Obj), arraySort(sBV64, es), p.Ref, types.NewArray(p.Obj, -1), p.Path, false
	}
	switch tt := p.Obj.Underlying().(type) {
	case *types.Array:
		es := ex.u.sortOf(tt.Elem())
		return compArrT(tt.Elem()), arraySort(sBV64, es), p.Ref, p.Obj, p.Path, false
	case *types.Struct:
		if len(p.Path) == 0 {
			return "", "", p.Ref, p.Obj, nil, true
		}
		si := ex.u.structOf(p.Obj)
		f := p.Path[0].Field
		ft := tt.Field(f).Type()
		if at, ok := ft.Underlying().(*types.Array); ok {
			es := ex.u.sortOf(at.Elem())
			return compArrT(at.Elem()), arraySort(sBV64, es), ex.embRef(si, f, p.Ref), ft, p.Path[1:], false
		}
		return compFieldT(p.Obj, f), si.fields[f], p.Ref, ft, p.Path[1:], false
	default:
		so := ex.u.sortOf(p.Obj)
		return compCellT(p.Obj), so, p.Ref, p.Obj, p.Path, false
	}
}

// loadH reads through a pointer in a heap view (cells are read from st).
func (ex *Exec) loadH(st *State, h *HeapView, p *Ptr) Term {
	if p.Cell != nil {
		v, ok := st.cells[p.Cell]
		if !ok {
			v = ex.u.zeroOf(p.Cell.typ)
		}
		r, _ := ex.readPath(v, p.Cell.typ, p.Path)
		return r
	}
	comp, vs, ref, st0, rest, whole := ex.slot(p)
	if whole {
		return ex.loadStruct(h, p.Ref, p.Obj)
	}
	v := sel(ex.comp(h, comp, vs), ref)
	r, _ := ex.readPath(v, st0, rest)
	return r
}

func (ex *Exec) loadStruct(h *HeapView, ref Term, t types.Type) Term {
	si := ex.u.structOf(t)
	stt := t.Underlying().(*types.Struct)
	if stt.NumFields() == 0 {
		return Term{"mk-" + si.name, si.name}
	}
	var args []Term
	for i := 0; i < stt.NumFields(); i++ {
		ft := stt.Field(i).Type()
		if at, ok := ft.Underlying().(*types.Array); ok {
			es := ex.u.sortOf(at.Elem())
			args = append(args, sel(ex.comp(h, compArrT(at.Elem()), arraySort(sBV64, es)), ex.embRef(si, i, ref)))
		} else {
			args = append(args, sel(ex.comp(h, compFieldT(t, i), si.fields[i]), ref))
		}
	}
	return mk(si.name, "mk-"+si.name, args...)
}

func (ex *Exec) setComp(st *State, comp string, t Term) {
	st.heap.m[comp] = ex.define(st, "h", t)
	if st.compBound == nil {
		st.compBound = map[string]Term{}
	}
	st.compBound[comp] = st.alloc
}

// loadBound: references read from a component were allocated no later than
// the component's last write (entry allocation counter if never written).
func (ex *Exec) loadBound(st *State, p *Ptr) Term {
	if p.Cell != nil {
		return st.alloc
	}
	comp, _, _, _, _, whole := ex.slot(p)
	if whole {
		return st.heapBound
	}
	if st.havocEpochBound.S != "" {
		// after a whole-heap havoc nothing older is known
		if b, ok := st.compBound[comp]; ok {
			return b
		}
		return st.havocEpochBound
	}
	if b, ok := st.compBound[comp]; ok {
		return b
	}
	if st.baseAlloc.S != "" {
		return st.baseAlloc
	}
	return st.heapBound
}

func (ex *Exec) storeTo(st *State, p *Ptr, v Term) {
	if p.Cell != nil {
		old, ok := st.cells[p.Cell]
		if !ok {
			old = ex.u.zeroOf(p.Cell.typ)
		}
		st.cells[p.Cell] = ex.define(st, "c", ex.writePath(old, p.Cell.typ, p.Path, v))
		return
	}
	st.heapBound = st.alloc
	comp, vs, ref, st0, rest, whole := ex.slot(p)
	if whole {
		ex.storeStruct(st, p.Ref, p.Obj, v)
		return
	}
	arr := ex.comp(st.heap, comp, vs)
	nv := v
	if len(rest) > 0 {
		nv = ex.writePath(sel(arr, ref), st0, rest, v)
	}
	ex.setComp(st, comp, store(arr, ref, nv))
}

func (ex *Exec) storeStruct(st *State, ref Term, t types.Type, v Term) {
	si := ex.u.structOf(t)
	stt := t.Underlying().(*types.Struct)
	for i := 0; i < stt.NumFields(); i++ {
		ft := stt.Field(i).Type()
		fv := ex.u.fieldSel(si, i, v)
		if at, ok := ft.Underlying().(*types.Array); ok {
			es := ex.u.sortOf(at.Elem())
			c := compArrT(at.Elem())
			ex.setComp(st, c, store(ex.comp(st.heap, c, arraySort(sBV64, es)), ex.embRef(si, i, ref), fv))
		} else {
			c := compFieldT(t, i)
			ex.setComp(st, c, store(ex.comp(st.heap, c, si.fields[i]), ref, fv))
		}
	}
}

// wellTyped returns the typing facts of a freshly havoc'd value: references are
// allocated (<= alloc counter), lengths are non-negative, nil interfaces are canonical.
func (ex *Exec) wellTyped(v Term, t types.Type, alloc Term, depth int) []Term {
	var out []Term
	switch tt := t.Underlying().(type) {
	case *types.Pointer, *types.Map, *types.Chan, *types.Signature:
		out = append(out, mk(sBool, "<=", tNull, v), mk(sBool, "<=", v, alloc))
	case *types.Slice:
		out = append(out,
			mk(sBool, "<=", sliceBase(v), alloc),
			mk(sBool, "bvsle", bv64(0), sliceLen(v)),
			mk(sBool, "bvsle", sliceLen(v), sliceCap(v)),
			mk(sBool, "bvsle", bv64(0), sliceOff(v)),
			mk(sBool, "bvsle", sliceOff(v), bv64(1<<62)),
			mk(sBool, "bvsle", sliceCap(v), bv64(1<<62)),
			implies(eq(sliceBase(v), tNull), eq(sliceCap(v), bv64(0))))
	case *types.Interface:
		out = append(out,
			mk(sBool, "<=", intLit(0), ifaceTag(v)),
			mk(sBool, "<=", ifacePv(v), alloc),
			implies(eq(ifaceTag(v), intLit(0)), eq(ifacePv(v), intLit(0))))
	case *types.Basic:
		if tt.Kind() == types.String {
			out = append(out, mk(sBool, "bvsle", bv64(0), mk(sBV64, "str.len_", v)))
		}
	case *types.Struct:
		if depth < 2 {
			si := ex.u.structOf(t)
			for i := 0; i < tt.NumFields(); i++ {
				out = append(out, ex.wellTyped(ex.u.fieldSel(si, i, v), tt.Field(i).Type(), alloc, depth+1)...)
			}
		}
	}
	return out
}

func (ex *Exec) assumeWellTyped(st *State, v Term, t types.Type) {
	for _, f := range ex.wellTyped(v, t, st.alloc, 0) {
		st.assume(f)
	}
}

// assumeLoaded: typing facts of a value loaded from the heap: references
// stored in the heap were allocated no later than the last store or call.
func (ex *Exec) assumeLoaded(st *State, v Term, t types.Type) {
	b := st.heapBound
	if b.S == "" {
		b = st.alloc
	}
	for _, f := range ex.wellTyped(v, t, b, 0) {
		st.assume(f)
	}
}

// havocHeap replaces every component (new epoch).
func (ex *Exec) havocHeap(st *State) {
	st.pendingAll = true
	ex.havocAll++
	old := st.heap
	st.heap = &HeapView{m: map[string]Term{}, epoch: ex.nextEpoch()}
	for g := range ex.cs.Protected {
		c := compGhost(g)
		st.heap.m[c] = ex.comp(old, c, ex.cs.Ghost[g])
	}
}

var epochCounter int64

func (ex *Exec) nextEpoch() int {
	return int(atomic.AddInt64(&epochCounter, 1))
}

func (ex *Exec) bumpAlloc(st *State) {
	na := ex.fresh("A", sInt)
	st.assume(mk(sBool, "<=", st.alloc, na))
	st.alloc = na
	st.heapBound = na
	if st.compBound == nil {
		st.compBound = map[string]Term{}
	}
	for _, c := range st.pendingBound {
		st.compBound[c] = na
	}
	st.pendingBound = nil
	if st.pendingAll {
		st.havocEpochBound = na
		st.compBound = map[string]Term{}
		st.pendingAll = false
	}
}

// newRef allocates a fresh reference.
func (ex *Exec) newRef(st *State) Term {
	r := ex.fresh("r", sInt)
	st.assume(mk(sBool, "<", st.alloc, r))
	st.assume(mk(sBool, "<", tNull, r))
	st.alloc = r
	st.nonnil[r.S] = true
	return r
}

func sortedKeys(m map[string]Term) []string {
	var ks []string
	for k := range m {
		ks = append(ks, k)
	}
	sort.Strings(ks)
	return ks
}

func shortFn(s string) string {
	s = strings.ReplaceAll(s, "go.uber.org/thriftrw/", "")
	return s
}
