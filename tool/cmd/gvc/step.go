package main

// Symbolic semantics of the non-control SSA instructions.

import (
	"fmt"
	"go/token"
	"go/types"
	"strings"

	"golang.org/x/tools/go/ssa"
)

// step executes one instruction. If it needs to fork the path it invokes k on
// each successor state and returns true.
func (ex *Exec) step(st *State, fc *FnCtx, in ssa.Instruction, pred *ssa.BasicBlock, k func(st *State)) bool {
	u := ex.u
	switch x := in.(type) {
	case *ssa.Alloc:
		t := x.Type().Underlying().(*types.Pointer).Elem()
		if isPrivateAlloc(x) {
			ex.cellCount++
			c := &Cell{id: ex.cellCount, typ: t, name: x.Comment}
			st.cellOf[x] = c
			st.cells[c] = u.zeroOf(t)
			st.env[x] = &Ptr{Cell: c, Obj: t}
			return false
		}
		r := ex.newRef(st)
		p := &Ptr{Ref: r, Obj: t}
		ex.initObject(st, p, t)
		if n, ok := t.(*types.Named); ok && n.Obj().Pkg() != nil && !strings.HasPrefix(n.Obj().Pkg().Path(), "go.uber.org/thriftrw") {
			ex.initGhost(st, r)
		}
		st.env[x] = p
	case *ssa.Store:
		p := ex.ptrOf(st, x.Addr)
		ex.derefCheck(st, fc, p, in)
		v := ex.asTerm(st, ex.val(st, x.Val), x.Val.Type())
		ex.storeTo(st, p, v)
	case *ssa.UnOp:
		switch x.Op {
		case token.MUL:
			if g, ok := x.X.(*ssa.Global); ok {
				if cv, ok := ex.constGlobal(g.Object().(*types.Var)); ok {
					st.env[x] = cv
					return false
				}
			}
			p := ex.ptrOf(st, x.X)
			ex.derefCheck(st, fc, p, in)
			v := ex.loadH(st, st.heap, p)
			if p.Cell == nil {
				v = ex.define(st, "ld", v)
				for _, f := range ex.wellTyped(v, x.Type(), ex.loadBound(st, p), 0) {
					st.assume(f)
				}
				// a map made by this function whose reference never leaves it is
				// not what a heap location holds
				if mt, ok := x.Type().Underlying().(*types.Map); ok {
					for _, lm := range st.localMaps {
						if types.Identical(lm.k, mt.Key()) && types.Identical(lm.v, mt.Elem()) {
							st.assume(not(eq(v, lm.ref)))
						}
					}
				}
			}
			st.env[x] = v
		case token.NOT:
			st.env[x] = not(ex.term(st, x.X))
		case token.SUB:
			a := ex.term(st, x.X)
			if isFloat(x.Type()) {
				st.env[x] = ex.uninterp(st, "fneg", a.So, a)
			} else {
				st.env[x] = mk(a.So, "bvneg", a)
			}
		case token.XOR:
			a := ex.term(st, x.X)
			st.env[x] = mk(a.So, "bvnot", a)
		case token.ARROW:
			unsupported("channel receive")
		default:
			unsupported("unop %s", x.Op)
		}
	case *ssa.BinOp:
		st.env[x] = ex.binop(st, fc, x)
	case *ssa.Convert:
		st.env[x] = ex.convert(st, x)
	case *ssa.ChangeType:
		st.env[x] = ex.val(st, x.X)
	case *ssa.ChangeInterface:
		st.env[x] = ex.val(st, x.X)
	case *ssa.MakeInterface:
		t := x.X.Type()
		v := ex.asTerm(st, ex.val(st, x.X), t)
		bx := u.box(v)
		if bx.S != v.S {
			// ground instance of unbox(box(v)) == v
			st.assume(eq(u.unbox(bx, v.So), v))
		}
		st.env[x] = ex.define(st, "mi", mkIface(u.tagOf(t), bx))
	case *ssa.TypeAssert:
		ex.typeAssert(st, fc, x)
	case *ssa.Extract:
		tup, ok := ex.val(st, x.Tuple).(Tuple)
		if !ok {
			unsupported("extract from non-tuple")
		}
		st.env[x] = tup[x.Index]
	case *ssa.FieldAddr:
		p := ex.ptrOf(st, x.X)
		ex.derefCheck(st, fc, p, in)
		st.env[x] = p.extend(PathEl{Field: x.Field})
	case *ssa.Field:
		v := ex.term(st, x.X)
		si := u.structOf(x.X.Type())
		st.env[x] = u.fieldSel(si, x.Field, v)
	case *ssa.IndexAddr:
		idx := ex.indexTerm(st, x.Index)
		switch tt := x.X.Type().Underlying().(type) {
		case *types.Slice:
			s := ex.term(st, x.X)
			ex.boundsCheck(st, fc, in, idx, sliceLen(s))
			off := mk(sBV64, "bvadd", sliceOff(s), idx)
			st.env[x] = &Ptr{Ref: sliceBase(s), Obj: tt.Elem(), ArrObj: true, Path: []PathEl{{Idx: &off}}}
		case *types.Pointer:
			at := tt.Elem().Underlying().(*types.Array)
			p := ex.ptrOf(st, x.X)
			ex.derefCheck(st, fc, p, in)
			ex.boundsCheck(st, fc, in, idx, bv64(at.Len()))
			st.env[x] = p.extend(PathEl{Idx: &idx})
		default:
			unsupported("IndexAddr on %s", x.X.Type())
		}
	case *ssa.Index:
		idx := ex.indexTerm(st, x.Index)
		switch tt := x.X.Type().Underlying().(type) {
		case *types.Array:
			a := ex.term(st, x.X)
			ex.boundsCheck(st, fc, in, idx, bv64(tt.Len()))
			st.env[x] = sel(a, idx)
		case *types.Basic: // string
			s := ex.term(st, x.X)
			ex.boundsCheck(st, fc, in, idx, mk(sBV64, "str.len_", s))
			st.env[x] = mk(sBV8, "str.at_", s, idx)
		default:
			unsupported("Index on %s", x.X.Type())
		}
	case *ssa.Lookup:
		switch tt := x.X.Type().Underlying().(type) {
		case *types.Map:
			m := ex.term(st, x.X)
			key := ex.term(st, x.Index)
			pres := sel(sel(ex.mapPComp(st.heap, tt.Key(), tt.Elem()), m), key)
			// nil map: lookups yield zero
			pres = and(not(eq(m, tNull)), pres)
			val := ite(pres, sel(sel(ex.mapVComp(st.heap, tt.Key(), tt.Elem()), m), key), u.zeroOf(tt.Elem()))
			val = ex.define(st, "mv", val)
			ex.assumeWellTyped(st, val, tt.Elem())
			if x.CommaOk {
				st.env[x] = Tuple{val, ex.define(st, "mp", pres)}
			} else {
				st.env[x] = val
			}
		case *types.Basic:
			s := ex.term(st, x.X)
			idx := ex.indexTerm(st, x.Index)
			ex.boundsCheck(st, fc, in, idx, mk(sBV64, "str.len_", s))
			st.env[x] = mk(sBV8, "str.at_", s, idx)
		default:
			unsupported("Lookup on %s", x.X.Type())
		}
	case *ssa.MapUpdate:
		mt := x.Map.Type().Underlying().(*types.Map)
		m := ex.term(st, x.Map)
		key := ex.term(st, x.Key)
		val := ex.asTerm(st, ex.val(st, x.Value), x.Value.Type())
		if !st.nonnil[m.S] {
			nn := not(eq(m, tNull))
			if ex.nopanic {
				ex.goal(st, "nopanic", fmt.Sprintf("%s#nopanic.nilmap@%d", fc.prefix, fc.instrOrd[in]), nn, ex.ct.Props, ex.posOf(in), "write to nil map", nil)
			}
			st.assume(nn)
			st.nonnil[m.S] = true
		}
		ex.mapStore(st, mt, m, key, val)
	case *ssa.MakeMap:
		mt := x.Type().Underlying().(*types.Map)
		if x.Reserve != nil {
			ex.allocCheck(st, fc, x, resize(ex.term(st, x.Reserve), 64, isSigned(x.Reserve.Type())), mt.Elem())
		}
		r := ex.newRef(st)
		pc := ex.mapPComp(st.heap, mt.Key(), mt.Elem())
		_, ps, _ := arrayParts(pc.So)
		ex.setComp(st, compMapPT(mt.Key(), mt.Elem()), store(pc, r, Term{"((as const " + ps + ") false)", ps}))
		lc := ex.mapLComp(st.heap)
		ex.setComp(st, compMapL(), store(lc, r, bv64(0)))
		for g := range ex.cs.FreshFalse {
			so := ex.cs.Ghost[g]
			c := ex.comp(st.heap, compGhost(g), so)
			st.assume(eq(sel(c, r), Term{"((as const " + so + ") false)", so}))
		}
		if mapIsLocal(x) {
			st.localMaps = append(st.localMaps, localMap{r, mt.Key(), mt.Elem()})
		}
		st.env[x] = r
	case *ssa.MakeSlice:
		st.env[x] = ex.makeSlice(st, fc, x)
	case *ssa.Slice:
		st.env[x] = ex.sliceOp(st, fc, x)
	case *ssa.MakeClosure:
		fn := x.Fn.(*ssa.Function)
		var bs []Val
		for _, b := range x.Bindings {
			bs = append(bs, ex.val(st, b))
		}
		st.env[x] = &Closure{Fn: fn, Bindings: bs}
	case *ssa.Phi:
		if v, ok := st.phiOverride[x]; ok {
			st.env[x] = v
			delete(st.phiOverride, x)
			return false
		}
		for i, p := range in.Block().Preds {
			if p == pred {
				st.env[x] = ex.val(st, x.Edges[i])
				return false
			}
		}
		unsupported("phi without matching predecessor")
	case *ssa.Range:
		switch tt := x.X.Type().Underlying().(type) {
		case *types.Map:
			st.env[x] = &RangeIter{Map: ex.term(st, x.X), KT: tt.Key(), VT: tt.Elem(), Instr: x}
			ks := u.sortOf(tt.Key())
			vs := arraySort(ks, sBool)
			if st.visited == nil {
				st.visited = map[*ssa.Range]Term{}
			}
			st.visited[x] = Term{"((as const " + vs + ") false)", vs}
			st.lastRange = x
		default:
			unsupported("range over %s", x.X.Type())
		}
	case *ssa.Next:
		it, ok := ex.val(st, x.Iter).(*RangeIter)
		if !ok || x.IsString {
			unsupported("next on non-map iterator")
		}
		okv := ex.fresh("rng_ok", sBool)
		kv := ex.fresh("rng_k", u.sortOf(it.KT))
		ex.assumeWellTyped(st, kv, it.KT)
		pres := sel(sel(ex.mapPComp(st.heap, it.KT, it.VT), it.Map), kv)
		st.assume(implies(okv, and(not(eq(it.Map, tNull)), pres)))
		if vis, ok := st.visited[it.Instr]; ok {
			// every key is yielded at most once, and when the iteration ends
			// every key of the map has been yielded (the map is assumed not
			// to be modified by the loop body: checked by the mod-set of the loop)
			st.assume(implies(okv, not(sel(vis, kv))))
			ex.counter++
			q := fmt.Sprintf("vk_%d", ex.counter)
			qt := Term{q, kv.So}
			all := fmt.Sprintf("(forall ((%s %s)) (! (=> %s %s) :pattern (%s) :pattern (%s)))", q, kv.So,
				and(not(eq(it.Map, tNull)), sel(sel(ex.mapPComp(st.heap, it.KT, it.VT), it.Map), qt)).S, sel(vis, qt).S,
				sel(vis, qt).S, sel(sel(ex.mapPComp(st.heap, it.KT, it.VT), it.Map), qt).S)
			st.assume(implies(not(okv), Term{all, sBool}))
			st.visited[it.Instr] = ex.define(st, "vis", ite(okv, store(vis, kv, tTrue), vis))
			st.lastRange = it.Instr
		}
		// a nil or empty map yields no iteration
		st.assume(implies(or(eq(it.Map, tNull), eq(sel(ex.mapLComp(st.heap), it.Map), bv64(0))), not(okv)))
		vv := ex.define(st, "rng_v", sel(sel(ex.mapVComp(st.heap, it.KT, it.VT), it.Map), kv))
		ex.assumeWellTyped(st, vv, it.VT)
		st.env[x] = Tuple{okv, kv, vv}
	default:
		unsupported("instruction %T: %s", in, in)
	}
	return false
}

func (ex *Exec) uninterp(st *State, name string, ret string, args ...Term) Term {
	// uninterpreted function symbol per (name, arg sorts)
	full := "uf_" + name
	for _, a := range args {
		full += "_" + sanitize(a.So)
	}
	if !ex.declSet[full] {
		ex.declSet[full] = true
		d := "(declare-fun " + full + " ("
		for i, a := range args {
			if i > 0 {
				d += " "
			}
			d += a.So
		}
		d += ") " + ret + ")"
		ex.decls = append(ex.decls, d)
	}
	return mk(ret, full, args...)
}

func (ex *Exec) indexTerm(st *State, v ssa.Value) Term {
	t := ex.term(st, v)
	return resize(t, 64, isSigned(v.Type()))
}

func (ex *Exec) boundsCheck(st *State, fc *FnCtx, in ssa.Instruction, idx, n Term) {
	inb := mk(sBool, "bvult", idx, n)
	if ex.nopanic {
		ex.goal(st, "nopanic", fmt.Sprintf("%s#nopanic.index@%d", fc.prefix, fc.instrOrd[in]), inb, ex.ct.Props, ex.posOf(in), "index out of range: "+in.String(), nil)
	}
	st.assume(inb)
}

func (ex *Exec) initObject(st *State, p *Ptr, t types.Type) {
	hb := st.heapBound
	defer func() { st.heapBound = hb }()
	switch tt := t.Underlying().(type) {
	case *types.Struct:
		ex.storeStruct(st, p.Ref, t, ex.u.zeroOf(t))
	case *types.Array:
		c := compArrT(tt.Elem())
		ex.setComp(st, c, store(ex.arrComp(st.heap, tt.Elem()), p.Ref, ex.u.zeroOf(t)))
	default:
		ex.storeTo(st, p, ex.u.zeroOf(t))
	}
}

func (ex *Exec) mapStore(st *State, mt *types.Map, m, key, val Term) {
	pc := ex.mapPComp(st.heap, mt.Key(), mt.Elem())
	vc := ex.mapVComp(st.heap, mt.Key(), mt.Elem())
	lc := ex.mapLComp(st.heap)
	was := sel(sel(pc, m), key)
	ex.setComp(st, compMapL(), store(lc, m, ite(was, sel(lc, m), mk(sBV64, "bvadd", sel(lc, m), bv64(1)))))
	ex.setComp(st, compMapPT(mt.Key(), mt.Elem()), store(pc, m, store(sel(pc, m), key, tTrue)))
	ex.setComp(st, compMapVT(mt.Key(), mt.Elem()), store(vc, m, store(sel(vc, m), key, val)))
}

func (ex *Exec) binop(st *State, fc *FnCtx, x *ssa.BinOp) Val {
	xt := x.X.Type()
	// pointer / interface / string / bool comparisons
	switch x.Op {
	case token.EQL, token.NEQ:
		var r Term
		switch xt.Underlying().(type) {
		case *types.Pointer:
			r = ex.ptrEq(st, x.X, x.Y)
		case *types.Interface:
			a, b := ex.term(st, x.X), ex.term(st, x.Y)
			if b.S == nilIface.S {
				r = eq(ifaceTag(a), intLit(0))
			} else if a.S == nilIface.S {
				r = eq(ifaceTag(b), intLit(0))
			} else {
				r = eq(a, b)
			}
		case *types.Slice:
			a, b := ex.term(st, x.X), ex.term(st, x.Y)
			if b.S == nilSlice.S {
				r = eq(sliceBase(a), tNull)
			} else {
				r = eq(sliceBase(b), tNull)
			}
		default:
			a, b := ex.term(st, x.X), ex.term(st, x.Y)
			if isFloat(xt) {
				r = fpEq(a, b)
			} else if _, ok := x.Y.Type().Underlying().(*types.Interface); ok {
				r = eq(a, b)
			} else {
				r = eq(a, b)
			}
		}
		if x.Op == token.NEQ {
			r = not(r)
		}
		return r
	}
	a, b := ex.term(st, x.X), ex.term(st, x.Y)
	signed := isSigned(xt)
	if a.So == sStr {
		switch x.Op {
		case token.ADD:
			r := ex.define(st, "sc", mk(sStr, "str.cat_", a, b))
			st.assume(eq(mk(sBV64, "str.len_", r), mk(sBV64, "bvadd", mk(sBV64, "str.len_", a), mk(sBV64, "str.len_", b))))
			return r
		case token.LSS:
			return ex.uninterp(st, "strlt", sBool, a, b)
		case token.GTR:
			return ex.uninterp(st, "strlt", sBool, b, a)
		case token.LEQ:
			return not(ex.uninterp(st, "strlt", sBool, b, a))
		case token.GEQ:
			return not(ex.uninterp(st, "strlt", sBool, a, b))
		}
		unsupported("string op %s", x.Op)
	}
	if isFloat(xt) {
		switch x.Op {
		case token.LSS:
			return Term{"(fp.lt " + fpOf(a) + " " + fpOf(b) + ")", sBool}
		case token.LEQ:
			return Term{"(fp.leq " + fpOf(a) + " " + fpOf(b) + ")", sBool}
		case token.GTR:
			return Term{"(fp.gt " + fpOf(a) + " " + fpOf(b) + ")", sBool}
		case token.GEQ:
			return Term{"(fp.geq " + fpOf(a) + " " + fpOf(b) + ")", sBool}
		}
		return ex.uninterp(st, "fop_"+sanitize(x.Op.String()), a.So, a, b)
	}
	n, isbv := isBV(a.So)
	if !isbv {
		if a.So == sBool {
			switch x.Op {
			case token.AND:
				return and(a, b)
			case token.OR:
				return or(a, b)
			}
		}
		unsupported("binop %s on sort %s", x.Op, a.So)
	}
	cmp := func(s, us string) Term {
		if signed {
			return mk(sBool, s, a, b)
		}
		return mk(sBool, us, a, b)
	}
	switch x.Op {
	case token.ADD:
		return ex.define(st, "v", mk(a.So, "bvadd", a, b))
	case token.SUB:
		return ex.define(st, "v", mk(a.So, "bvsub", a, b))
	case token.MUL:
		return ex.define(st, "v", mk(a.So, "bvmul", a, b))
	case token.QUO, token.REM:
		nz := not(eq(b, bvLit(n, bigZero)))
		if ex.nopanic {
			ex.goal(st, "nopanic", fmt.Sprintf("%s#nopanic.div@%d", fc.prefix, fc.instrOrd[x]), nz, ex.ct.Props, ex.posOf(x), "division by zero", nil)
		}
		st.assume(nz)
		op := map[bool]map[token.Token]string{true: {token.QUO: "bvsdiv", token.REM: "bvsrem"}, false: {token.QUO: "bvudiv", token.REM: "bvurem"}}[signed][x.Op]
		return ex.define(st, "v", mk(a.So, op, a, b))
	case token.AND:
		return ex.define(st, "v", mk(a.So, "bvand", a, b))
	case token.OR:
		return ex.define(st, "v", mk(a.So, "bvor", a, b))
	case token.XOR:
		return ex.define(st, "v", mk(a.So, "bvxor", a, b))
	case token.AND_NOT:
		return ex.define(st, "v", mk(a.So, "bvand", a, mk(a.So, "bvnot", b)))
	case token.SHL, token.SHR:
		m, _ := isBV(b.So)
		// shift count is unsigned (a negative signed count panics; assumed non-negative)
		var cnt Term
		var big Term = tFalse
		if m > n {
			big = mk(sBool, "bvuge", b, bvLit(m, bigInt(int64(n))))
			cnt = resize(b, n, false)
		} else {
			cnt = resize(b, n, false)
		}
		op := "bvshl"
		over := bvLit(n, bigZero)
		if x.Op == token.SHR {
			op = "bvlshr"
			if signed {
				op = "bvashr"
				over = mk(a.So, "bvashr", a, bvLit(n, bigInt(int64(n-1))))
			}
		}
		return ex.define(st, "v", ite(big, over, mk(a.So, op, a, cnt)))
	case token.LSS:
		return cmp("bvslt", "bvult")
	case token.LEQ:
		return cmp("bvsle", "bvule")
	case token.GTR:
		return cmp("bvsgt", "bvugt")
	case token.GEQ:
		return cmp("bvsge", "bvuge")
	}
	unsupported("binop %s", x.Op)
	return nil
}

func (ex *Exec) ptrEq(st *State, a, b ssa.Value) Term {
	va, vb := ex.val(st, a), ex.val(st, b)
	pa, aIsPtr := va.(*Ptr)
	pb, bIsPtr := vb.(*Ptr)
	if aIsPtr && pa.Cell != nil || bIsPtr && pb.Cell != nil {
		// address of a private cell is never nil and never equal to a heap reference
		if aIsPtr && bIsPtr && pa.Cell == pb.Cell && len(pa.Path) == 0 && len(pb.Path) == 0 {
			return tTrue
		}
		return tFalse
	}
	return eq(ex.asTerm(st, va, a.Type()), ex.asTerm(st, vb, b.Type()))
}

func (ex *Exec) convert(st *State, x *ssa.Convert) Val {
	from, to := x.X.Type(), x.Type()
	v := ex.term(st, x.X)
	fs, ts := v.So, ex.u.sortOf(to)
	_, fbv := isBV(fs)
	tn, tbv := isBV(ts)
	switch {
	case fbv && tbv && !isFloat(from) && !isFloat(to):
		return resize(v, tn, isSigned(from))
	case fbv && tbv:
		if isFloat(from) && isFloat(to) && fs == ts {
			return v
		}
		return ex.uninterp(st, "fconv_"+sanitize(from.Underlying().String())+"_"+sanitize(to.Underlying().String()), ts, v)
	case fs == sStr && ts == sSlice:
		// []byte(s): fresh slice with the bytes of s
		r := ex.newRef(st)
		n := mk(sBV64, "str.len_", v)
		arr := ex.uninterp(st, "str_bytes", arraySort(sBV64, sBV8), v)
		ex.strBytesAxiom(st, v, arr)
		et := to.Underlying().(*types.Slice).Elem()
		ex.setComp(st, compArrT(et), store(ex.arrComp(st.heap, et), r, arr))
		return mkSlice(r, bv64(0), n, n)
	case fs == sSlice && ts == sStr:
		et := from.Underlying().(*types.Slice).Elem()
		arr := sel(ex.arrComp(st.heap, et), sliceBase(v))
		s := ex.define(st, "s", ex.uninterp(st, "bytes_str", sStr, arr, sliceOff(v), sliceLen(v)))
		st.assume(eq(mk(sBV64, "str.len_", s), sliceLen(v)))
		// the string holds the bytes of the slice
		ex.counter++
		k := fmt.Sprintf("bsq_%d", ex.counter)
		st.log = append(st.log, fmt.Sprintf("(assert (forall ((%s (_ BitVec 64))) (! (=> (bvult %s %s) (= (str.at_ %s %s) (select %s (bvadd %s %s)))) :pattern ((str.at_ %s %s)))))",
			k, k, sliceLen(v).S, s.S, k, arr.S, sliceOff(v).S, k, s.S, k))
		return s
	case fs == sInt && ts == sInt:
		return v
	case fbv && ts == sStr:
		return ex.uninterp(st, "rune_str", sStr, v)
	case fs == ts:
		return v
	}
	unsupported("convert %s -> %s", from, to)
	return nil
}

// strBytesAxiom: the byte array of a string agrees with str.at_.
func (ex *Exec) strBytesAxiom(st *State, s Term, arr Term) {
	k := fmt.Sprintf("sbq_%d", ex.counter)
	ex.counter++
	st.log = append(st.log, fmt.Sprintf("(assert (forall ((%s (_ BitVec 64))) (! (= (select %s %s) (str.at_ %s %s)) :pattern ((select %s %s)))))", k, arr.S, k, s.S, k, arr.S, k))
}

func (ex *Exec) typeAssert(st *State, fc *FnCtx, x *ssa.TypeAssert) {
	u := ex.u
	v := ex.term(st, x.X)
	at := x.AssertedType
	var ok Term
	var res Val
	if _, isIface := at.Underlying().(*types.Interface); isIface {
		ok = ex.implementsPred(st, v, at)
		res = v
	} else {
		ok = eq(ifaceTag(v), intLit(int64(u.tagOf(at))))
		so := u.sortOf(at)
		res = ex.define(st, "ta", u.unbox(ifacePv(v), so))
	}
	if x.CommaOk {
		okc := ex.define(st, "ok", ok)
		rt := res.(Term)
		// on failure the result is the zero value
		zv := u.zeroOf(at)
		st.env[x] = Tuple{ex.define(st, "tav", ite(okc, rt, zv)), okc}
		return
	}
	if ex.nopanic {
		ex.goal(st, "nopanic", fmt.Sprintf("%s#nopanic.assert@%d", fc.prefix, fc.instrOrd[x]), ok, ex.ct.Props, ex.posOf(x), "type assertion may fail: "+x.String(), nil)
	}
	st.assume(ok)
	if rt, isT := res.(Term); isT {
		ex.assumeWellTyped(st, rt, at)
	}
	st.env[x] = res
}

// implementsPred: dynamic type of v implements interface type it.
func (ex *Exec) implementsPred(st *State, v Term, it types.Type) Term {
	iface := it.Underlying().(*types.Interface)
	if iface.NumMethods() == 0 {
		return not(eq(ifaceTag(v), intLit(0)))
	}
	name := "impl_" + sanitize(typeKey(it))
	if !ex.declSet[name] {
		ex.declSet[name] = true
		ex.decls = append(ex.decls, "(declare-fun "+name+" (Int) Bool)")
		ex.decls = append(ex.decls, "(assert (not ("+name+" 0)))")
		ex.implPreds[name] = iface
	}
	return mk(sBool, name, ifaceTag(v))
}

func (ex *Exec) makeSlice(st *State, fc *FnCtx, x *ssa.MakeSlice) Val {
	ln := resize(ex.term(st, x.Len), 64, isSigned(x.Len.Type()))
	cp := resize(ex.term(st, x.Cap), 64, isSigned(x.Cap.Type()))
	okc := and(mk(sBool, "bvsle", bv64(0), ln), mk(sBool, "bvsle", ln, cp))
	if ex.nopanic {
		ex.goal(st, "nopanic", fmt.Sprintf("%s#nopanic.make@%d", fc.prefix, fc.instrOrd[x]), okc, ex.ct.Props, ex.posOf(x), "makeslice: len out of range", nil)
	}
	st.assume(okc)
	ex.allocCheck(st, fc, x, cp, x.Type().Underlying().(*types.Slice).Elem())
	st.assume(mk(sBool, "bvsle", cp, bv64(1<<62)))
	r := ex.newRef(st)
	et := x.Type().Underlying().(*types.Slice).Elem()
	ac := ex.arrComp(st.heap, et)
	_, as, _ := arrayParts(ac.So)
	ex.setComp(st, compArrT(et), store(ac, r, Term{"((as const " + as + ") " + ex.u.zeroOf(et).S + ")", as}))
	return mkSlice(r, bv64(0), ln, cp)
}

func (ex *Exec) sliceOp(st *State, fc *FnCtx, x *ssa.Slice) Val {
	get := func(v ssa.Value) (Term, bool) {
		if v == nil {
			return Term{}, false
		}
		return resize(ex.term(st, v), 64, isSigned(v.Type())), true
	}
	lo, hasLo := get(x.Low)
	hi, hasHi := get(x.High)
	mx, hasMax := get(x.Max)
	if !hasLo {
		lo = bv64(0)
	}
	check := func(c Term) {
		if ex.nopanic {
			ex.goal(st, "nopanic", fmt.Sprintf("%s#nopanic.slice@%d", fc.prefix, fc.instrOrd[x]), c, ex.ct.Props, ex.posOf(x), "slice bounds out of range: "+x.String(), nil)
		}
		st.assume(c)
	}
	switch tt := x.X.Type().Underlying().(type) {
	case *types.Slice:
		s := ex.term(st, x.X)
		if !hasHi {
			hi = sliceLen(s)
		}
		if !hasMax {
			mx = sliceCap(s)
		}
		check(and(mk(sBool, "bvule", lo, hi), mk(sBool, "bvule", hi, mx), mk(sBool, "bvule", mx, sliceCap(s))))
		return ex.define(st, "sl", mkSlice(sliceBase(s), mk(sBV64, "bvadd", sliceOff(s), lo), mk(sBV64, "bvsub", hi, lo), mk(sBV64, "bvsub", mx, lo)))
	case *types.Basic: // string
		s := ex.term(st, x.X)
		if !hasHi {
			hi = mk(sBV64, "str.len_", s)
		}
		check(and(mk(sBool, "bvule", lo, hi), mk(sBool, "bvule", hi, mk(sBV64, "str.len_", s))))
		r := ex.uninterp(st, "substr", sStr, s, lo, hi)
		st.assume(eq(mk(sBV64, "str.len_", r), mk(sBV64, "bvsub", hi, lo)))
		return ex.define(st, "ss", r)
	case *types.Pointer:
		at := tt.Elem().Underlying().(*types.Array)
		p := ex.ptrOf(st, x.X)
		ex.derefCheck(st, fc, p, x)
		n := bv64(at.Len())
		if !hasHi {
			hi = n
		}
		if !hasMax {
			mx = n
		}
		check(and(mk(sBool, "bvule", lo, hi), mk(sBool, "bvule", hi, mx), mk(sBool, "bvule", mx, n)))
		if p.Cell != nil {
			unsupported("slice of private array cell")
		}
		var base Term
		if len(p.Path) == 0 {
			base = p.Ref
		} else {
			base = ex.reify(p)
		}
		return ex.define(st, "sl", mkSlice(base, lo, mk(sBV64, "bvsub", hi, lo), mk(sBV64, "bvsub", mx, lo)))
	}
	unsupported("slice of %s", x.X.Type())
	return nil
}


// initGhost: a freshly allocated object has consumed / produced nothing.
func (ex *Exec) initGhost(st *State, r Term) {
	for _, g := range []string{"rpos", "wlen"} {
		so, ok := ex.cs.Ghost[g]
		if !ok {
			continue
		}
		c := ex.comp(st.heap, compGhost(g), so)
		ex.setComp(st, compGhost(g), store(c, r, bv64(0)))
	}
}


// constGlobal: sentinel package-level variables declared `constglobal` are
// fixed non-nil interface values, pairwise distinct.
func (ex *Exec) constGlobal(v *types.Var) (Term, bool) {
	if v.Pkg() == nil {
		return Term{}, false
	}
	key := v.Pkg().Path() + "." + v.Name()
	if !ex.cs.ConstGlobals[key] || ex.u.sortOf(v.Type()) != sIface {
		return Term{}, false
	}
	name := "cg_" + sanitize(key)
	if !ex.declSet[name] {
		ex.declSet[name] = true
		ex.decls = append(ex.decls, fmt.Sprintf("(declare-const %s Iface)", name))
		ex.decls = append(ex.decls, fmt.Sprintf("(assert (> (i.tag %s) 0))", name))
		for _, o := range ex.constGlobals {
			ex.decls = append(ex.decls, fmt.Sprintf("(assert (not (= %s %s)))", name, o))
		}
		ex.constGlobals = append(ex.constGlobals, name)
	}
	return Term{name, sIface}, true
}


// mapIsLocal: the map made here is only ever stored into one private local
// variable and used through that variable for lookups, updates, ranges and
// len: its reference never reaches a callee or the heap, so no call can change it.
func mapIsLocal(mk *ssa.MakeMap) bool {
	refs := mk.Referrers()
	if refs == nil {
		return false
	}
	var cell *ssa.Alloc
	for _, r := range *refs {
		switch x := r.(type) {
		case *ssa.Store:
			a, ok := x.Addr.(*ssa.Alloc)
			if !ok || x.Val != mk || !isPrivateAlloc(a) || (cell != nil && cell != a) {
				return false
			}
			cell = a
		case *ssa.DebugRef:
		case *ssa.MapUpdate:
			if x.Map != mk {
				return false
			}
		default:
			return false
		}
	}
	if cell == nil {
		return false
	}
	for _, r := range *cell.Referrers() {
		switch x := r.(type) {
		case *ssa.Store:
			if x.Addr == cell && x.Val != mk {
				return false
			}
		case *ssa.UnOp:
			lrefs := x.Referrers()
			if lrefs == nil {
				continue
			}
			for _, u := range *lrefs {
				switch y := u.(type) {
				case *ssa.MapUpdate:
					if y.Map != x {
						return false
					}
				case *ssa.Lookup:
					if y.X != x {
						return false
					}
				case *ssa.Range:
				case *ssa.DebugRef:
				case *ssa.Call:
					if b, ok := y.Call.Value.(*ssa.Builtin); !ok || (b.Name() != "len" && b.Name() != "delete") {
						return false
					}
				default:
					return false
				}
			}
		case *ssa.DebugRef:
		default:
			return false
		}
	}
	return true
}
