package main

// Verification of one function against its contract: entry state, ensures,
// frame, vacuity guards; query generation.

import (
	"fmt"
	"go/ast"
	"go/types"
	"runtime/debug"
	"strings"

	"golang.org/x/tools/go/ssa"
)

type FnResult struct {
	Contract    *Contract
	Fn          string
	Attached    bool
	Goals       []*Goal
	Unsupported []string
	SpecErrs    []string
	Inlined     []string
	Used        []string
	Uncontracted []string
	Notes       []string
	Axioms      []string
	Prelude     string
	Decls       []string
	Instrs      int
	Paths       int
}

func (p *Program) reaches(from, to *ssa.Function) bool {
	seen := map[*ssa.Function]bool{}
	var visit func(f *ssa.Function) bool
	visit = func(f *ssa.Function) bool {
		if f == to {
			return true
		}
		if seen[f] || !inModule(f) {
			return false
		}
		seen[f] = true
		for _, b := range f.Blocks {
			for _, in := range b.Instrs {
				if c, ok := in.(ssa.CallInstruction); ok {
					cc := c.Common()
					if cc.IsInvoke() {
						if iface, ok := cc.Value.Type().Underlying().(*types.Interface); ok {
							for _, impl := range p.implementers(iface) {
								if g := p.prog.LookupMethod(impl, cc.Method.Pkg(), cc.Method.Name()); g != nil && visit(g) {
									return true
								}
							}
						}
						continue
					}
					if g, ok := cc.Value.(*ssa.Function); ok && visit(g) {
						return true
					}
					if mc, ok := cc.Value.(*ssa.MakeClosure); ok {
						if g, ok := mc.Fn.(*ssa.Function); ok && visit(g) {
							return true
						}
					}
				}
				if mc, ok := in.(*ssa.MakeClosure); ok {
					if g, ok := mc.Fn.(*ssa.Function); ok && visit(g) {
						return true
					}
				}
			}
		}
		return false
	}
	return visit(from)
}

func newExec(p *Program, cs *ContractSet, fn *ssa.Function, ct *Contract) *Exec {
	ex := &Exec{u: newUniverse(), prog: p, cs: cs, fn: fn, ct: ct,
		declSet: map[string]bool{}, inlined: map[string]bool{}, usedContracts: map[string]bool{},
		maxPaths: 1500, goalNames: map[string]int{}, callOrd: map[string]int{}, compIDs: map[string]int{}, compSorts: map[string]string{},
		fnIDs: map[*ssa.Function]int{}, closures: map[string]*Closure{}, fieldRefs: map[int]fieldRefInfo{}, implPreds: map[string]*types.Interface{},
		uncontracted: map[string]bool{}, usedAxioms: map[string]bool{}, assumedClauses: map[string]bool{}, reified: map[string]*Ptr{}, unfolded: map[string]bool{}}
	ex.u.extraDecls = p.spec.text
	return ex
}

func (p *Program) verifyFunction(cs *ContractSet, ct *Contract) *FnResult {
	return p.verifyFunctionWith(cs, ct, nil)
}

func (p *Program) verifyFunctionWith(cs *ContractSet, ct *Contract, findings map[string][]Finding) *FnResult {
	res := &FnResult{Contract: ct, Fn: ct.Func}
	fn := p.funcs[ct.Func]
	if fn == nil || len(fn.Blocks) == 0 {
		res.Attached = false
		return res
	}
	res.Attached = true
	for _, b := range fn.Blocks {
		res.Instrs += len(b.Instrs)
	}
	ex := newExec(p, cs, fn, ct)
	ex.nopanic = ct.NoPanic
	ex.findings = findings
	if len(ct.Allocs) > 0 {
		ex.allocHook = func(st *State, fc *FnCtx, in ssa.Instruction, n Term, elem types.Type) {
			if !fc.top {
				return
			}
			env := ex.specEnvAt(st, fc)
			env.names["n"] = tv{T: n, Ty: types.Typ[types.Int]}
			env.names["esize"] = tv{T: bv64(ex.prog.sizeof(elem)), Ty: types.Typ[types.Int]}
			saved := ex.curEnv
			ex.curEnv = env
			for i, cl := range ct.Allocs {
				if cl.Label == "make" {
					// only explicit make sites (append growth is paid for by the elements actually decoded)
					switch in.(type) {
					case *ssa.MakeSlice, *ssa.MakeMap:
					default:
						continue
					}
				}
				t, err := env.evalBool(cl.Text)
				if err != nil {
					ex.specError(cl, err)
					continue
				}
				ord := 0
				if in != nil {
					ord = fc.instrOrd[in]
				}
				ex.goal(st, "alloc", fmt.Sprintf("%s#alloc%d@%s%d", fc.prefix, i+1, instrKind(in), ord), t, ct.clauseProps(cl), ex.posOfOpt(in), "allocation size bound: "+cl.Text, cl)
			}
			ex.curEnv = saved
		}
	}
	prefix := shortFn(ct.Func)
	fc := ex.newFnCtx(fn, ct, true, prefix)
	// detached loop contracts
	for n := range ct.LoopInv {
		if n > len(fc.loops) {
			res.Attached = false
		}
	}
	for n := range ct.LoopDec {
		if n > len(fc.loops) {
			res.Attached = false
		}
	}
	func() {
		defer func() {
			if r := recover(); r != nil {
				switch e := r.(type) {
				case unsupportedErr:
					ex.unsupported = append(ex.unsupported, e.msg)
				case specErr:
					ex.specErrs = append(ex.specErrs, e.msg)
				default:
					ex.unsupported = append(ex.unsupported, fmt.Sprintf("internal error: %v\n%s", r, debug.Stack()))
				}
			}
		}()
		ex.runTop(fc)
		ex.niGoals(fc)
	}()
	res.Goals = ex.goals
	res.Unsupported = ex.unsupported
	res.SpecErrs = ex.specErrs
	for n := range ex.inlined {
		res.Inlined = append(res.Inlined, n)
	}
	for n := range ex.usedContracts {
		res.Used = append(res.Used, n)
	}
	for n := range ex.uncontracted {
		res.Uncontracted = append(res.Uncontracted, n)
	}
	res.Notes = ex.notes
	for n := range ex.usedAxioms {
		res.Axioms = append(res.Axioms, n)
	}
	for n := range ex.assumedClauses {
		res.Axioms = append(res.Axioms, "assumed-clause:"+n)
	}
	res.Paths = ex.paths + 1
	res.Prelude = ex.u.Prelude()
	res.Decls = append(ex.decls, strings.Split(strings.TrimSpace(ex.implAxioms()), "\n")...)
	return res
}

// implAxioms: facts about interface-implementation predicates for known tags.
func (ex *Exec) implAxioms() string {
	var b strings.Builder
	for name, iface := range ex.implPreds {
		for i, t := range ex.u.tagTypes {
			if types.Implements(t, iface) {
				fmt.Fprintf(&b, "(assert (%s %d))\n", name, i+1)
			} else {
				fmt.Fprintf(&b, "(assert (not (%s %d)))\n", name, i+1)
			}
		}
	}
	return b.String()
}

func (ex *Exec) runTop(fc *FnCtx) {
	fn, ct := fc.fn, fc.ct
	st := &State{env: map[ssa.Value]Val{}, cells: map[*Cell]Term{}, cellOf: map[*ssa.Alloc]*Cell{},
		heap: &HeapView{m: map[string]Term{}, epoch: 0}, nonnil: map[string]bool{}, open: map[*ssa.BasicBlock]*loopCtx{}}
	a0 := ex.fresh("A0", sInt)
	st.alloc = a0
	st.heapBound = a0
	st.baseAlloc = a0
	st.assume(mk(sBool, "<=", intLit(maxGlobals), a0))
	names := map[string]tv{}
	for i, p := range fn.Params {
		v := ex.fresh("p_"+sanitize(p.Name()), ex.u.sortOf(p.Type()))
		ex.assumeWellTyped(st, v, p.Type())
		st.env[p] = v
		names[p.Name()] = tv{T: v, Ty: p.Type()}
		names[fmt.Sprintf("arg%d", i)] = names[p.Name()]
		if i == 0 && fn.Signature.Recv() != nil {
			names["recv"] = names[p.Name()]
		}
	}
	for _, fv := range fn.FreeVars {
		// captured variables are pointers to heap cells
		v := ex.fresh("fv_"+sanitize(fv.Name()), ex.u.sortOf(fv.Type()))
		ex.assumeWellTyped(st, v, fv.Type())
		st.env[fv] = v
		if pt, ok := fv.Type().Underlying().(*types.Pointer); ok {
			names[fv.Name()] = tv{T: ex.loadH(st, st.heap, &Ptr{Ref: v, Obj: pt.Elem()}), Ty: pt.Elem()}
			st.assume(not(eq(v, tNull)))
			st.nonnil[v.S] = true
		}
	}
	fc.names = names
	pkg := fnPkg(fn)
	env := &SpecEnv{ex: ex, st: st, heap: st.heap, names: names, pkg: pkg, alloc: st.alloc}
	for _, cl := range ct.Requires {
		t, err := env.evalBool(cl.Text)
		if err != nil {
			ex.specError(cl, err)
			continue
		}
		st.assume(t)
	}
	ex.assumeUses(st, env, ct.Uses)
	entry := &entryInfo{heap: st.heap.clone(), alloc: st.alloc, lets: map[string]tv{}}
	for _, cl := range ct.Lets {
		// let name = expr
		parts := strings.SplitN(cl.Text, "=", 2)
		if len(parts) != 2 {
			ex.specError(cl, fmt.Errorf("let needs name = expr"))
			continue
		}
		v, err := env.evalTerm(strings.TrimSpace(parts[1]))
		if err != nil {
			ex.specError(cl, err)
			continue
		}
		v = env.needTerm(v)
		c := ex.fresh("let_"+sanitize(strings.TrimSpace(parts[0])), v.T.So)
		st.assume(eq(c, v.T))
		nv := tv{T: c, Ty: v.Ty}
		entry.lets[strings.TrimSpace(parts[0])] = nv
		names[strings.TrimSpace(parts[0])] = nv
	}
	if len(ct.Decr) > 0 {
		entry.measure = ex.evalMeasure(env, ct.Decr)
		for i, m := range entry.measure {
			c := ex.fresh("m0", m.So)
			st.assume(eq(c, m))
			entry.measure[i] = c
		}
	}
	st.entry = entry
	if len(ct.Secrets) > 0 {
		pseudo := &Contract{Modifies: ct.Secrets}
		refs, extra := ex.modifiedRefs(env, pseudo)
		if extra.all {
			ex.specErrs = append(ex.specErrs, "secret locations do not resolve")
		}
		ex.niSecrets = refs
	}
	// vacuity guard (a): preconditions satisfiable
	ex.cover(st, shortFn(ct.Func)+"#cover.pre", tTrue, ct.Props, "requires and type invariants are satisfiable")

	retCount := 0
	fc.onReturn = func(st2 *State, results []Val) {
		retCount++
		ex.checkPost(st2, fc, results, retCount)
	}
	ex.runBlock(st, fc, fn.Blocks[0], nil)
}

func (ex *Exec) checkPost(st *State, fc *FnCtx, results []Val, retN int) {
	fn, ct := fc.fn, fc.ct
	sig := fn.Signature
	var rtv []tv
	for i, r := range results {
		t := sig.Results().At(i).Type()
		switch y := r.(type) {
		case Term:
			rtv = append(rtv, tv{T: y, Ty: t})
		case *Ptr:
			rtv = append(rtv, tv{T: ex.reify(y), Ty: t})
		case *Closure:
			rtv = append(rtv, tv{T: ex.closureRef(st, y), Ty: t})
		default:
			unsupported("result of kind %T", r)
		}
	}
	names := map[string]tv{}
	for n, v := range fc.names {
		names[n] = v
	}
	for n, v := range st.entry.lets {
		names[n] = v
	}
	resultNames(sig, rtv, names)
	env := &SpecEnv{ex: ex, st: st, heap: st.heap, old: st.entry.heap, names: names, oldNames: fc.names, pkg: fnPkg(fn), alloc: st.alloc, oldAlloc: st.entry.alloc}
	ex.curEnv = env
	defer func() { ex.curEnv = nil }()
	ex.assumeUses(st, env, ct.PostUses)
	if len(ct.Secrets) > 0 {
		var outs []string
		if len(ct.NiOuts) == 0 && len(rtv) > 0 {
			outs = append(outs, rtv[0].T.S)
		}
		for _, cl := range ct.NiOuts {
			v, err := env.evalTerm(cl.Text)
			if err != nil {
				ex.specError(cl, err)
				continue
			}
			outs = append(outs, env.needTerm(v).T.S)
		}
		ex.niReturns = append(ex.niReturns, niReturn{log: append([]string(nil), st.log...), outs: outs, tag: strings.Join(st.pathTag, ",")})
	}
	ex.cover(st, fc.prefix+"#cover.return", tTrue, ct.Props, "some return path is reachable under the assumed contracts")
	for i, cl := range ct.Ensures {
		if cl.Assumed {
			ex.assumedClauses[fc.prefix+"#post("+cl.Label+"): "+cl.Text] = true
			continue
		}
		t, err := env.evalBool(cl.Text)
		if err != nil {
			ex.specError(cl, err)
			continue
		}
		name := fmt.Sprintf("%s#post%d", fc.prefix, i+1)
		if cl.Label != "" {
			name = fmt.Sprintf("%s#post(%s)", fc.prefix, cl.Label)
		}
		ex.goal(st, "post", name, t, ct.clauseProps(cl), fmt.Sprintf("%s:%d", cl.File, cl.Line), "ensures "+cl.Text, cl)
	}
	if ct.ErrsFromCallees {
		// no new failure modes: the returned error is nil or one a callee returned on this path
		for i, r := range rtv {
			if !isErrorType(sig.Results().At(i).Type()) {
				continue
			}
			alts := []Term{eq(ifaceTag(r.T), intLit(0))}
			for _, e := range st.calleeErrs {
				alts = append(alts, eq(r.T, e))
			}
			if ct.ErrsUnless != "" {
				u, err := env.evalBool(ct.ErrsUnless)
				if err != nil {
					ex.specError(&Clause{Kind: "errsfromcallees", Text: ct.ErrsUnless, File: ct.File, Line: ct.Line}, err)
				} else {
					alts = append(alts, u)
				}
			}
			ex.goal(st, "post", fc.prefix+"#post(errsfromcallees)", or(alts...), ct.Props, fmt.Sprintf("%s:%d", ct.File, ct.Line), "a returned error is nil or an error returned by a callee on this path", nil)
		}
	}
	for i, cl := range ct.Covers {
		t, err := env.evalBool(cl.Text)
		if err != nil {
			ex.specError(cl, err)
			continue
		}
		ex.cover(st, fmt.Sprintf("%s#cover%d", fc.prefix, i+1), t, ct.clauseProps(cl), "reachable: "+cl.Text)
	}
	// frame
	if len(ct.Modifies) > 0 {
		entryEnv := &SpecEnv{ex: ex, st: st, heap: st.entry.heap, names: fc.names, pkg: fnPkg(fn), alloc: st.entry.alloc}
		for n, v := range st.entry.lets {
			_ = n
			_ = v
		}
		refs, extra := ex.modifiedRefs(entryEnv, ct)
		if !extra.all {
			k := 0
			for _, c := range sortedKeys(st.heap.m) {
				cur := st.heap.m[c]
				old, ok := st.entry.heap.m[c]
				if ok && old.S == cur.S {
					continue
				}
				if !ok {
					old = ex.comp(st.entry.heap, c, ex.compSorts[c])
				}
				if old.S == cur.S {
					continue
				}
				k++
				ex.counter++
				r := Term{fmt.Sprintf("fr_%d", ex.counter), sInt}
				guard := []Term{mk(sBool, "<=", r, st.entry.alloc)}
				for _, lr := range refs[c] {
					guard = append(guard, not(eq(r, lr)))
				}
				g := Term{fmt.Sprintf("(forall ((%s Int)) (=> %s (= (select %s %s) (select %s %s))))", r.S, and(guard...).S, cur.S, r.S, old.S, r.S), sBool}
				ex.goal(st, "frame", fmt.Sprintf("%s#frame(%s)", fc.prefix, shortComp(c)), g, ct.Props, "", "only declared locations of "+c+" change", ct.Modifies[0])
			}
		}
	}
}

func shortComp(c string) string {
	c = strings.ReplaceAll(c, "go.uber.org/thriftrw/", "")
	return c
}

// modLocationAST resolves one location of a modifies clause.
func (ex *Exec) modLocationAST(env *SpecEnv, e ast.Expr, refs map[string][]Term, ms *ModSet) {
	add := func(c string, r Term) { refs[c] = append(refs[c], r) }
	switch x := e.(type) {
	case *ast.ParenExpr:
		ex.modLocationAST(env, x.X, refs, ms)
		return
	case *ast.CallExpr:
		if id, ok := x.Fun.(*ast.Ident); ok {
			if _, ok := ex.cs.Ghost[id.Name]; ok {
				a := env.eval(x.Args[0])
				r := a.T
				if a.IsNil {
					r = tNull
				} else if a.T.So == sIface {
					r = ifacePv(a.T)
				}
				add(compGhost(id.Name), r)
				return
			}
			switch id.Name {
			case "elems":
				a := env.eval(x.Args[0])
				st, ok := a.Ty.Underlying().(*types.Slice)
				if !ok {
					sfail("elems of non-slice")
				}
				add(compArrT(st.Elem()), sliceBase(a.T))
				return
			case "mapof":
				a := env.eval(x.Args[0])
				mt, ok := a.Ty.Underlying().(*types.Map)
				if !ok {
					sfail("mapof non-map")
				}
				add(compMapPT(mt.Key(), mt.Elem()), a.T)
				add(compMapVT(mt.Key(), mt.Elem()), a.T)
				add(compMapL(), a.T)
				return
			}
		}
	case *ast.SelectorExpr:
		a := env.eval(x.X)
		t := a.Ty
		pt, ok := t.Underlying().(*types.Pointer)
		if !ok {
			sfail("modifies %s: base is not a pointer", x.Sel.Name)
		}
		stt, ok := pt.Elem().Underlying().(*types.Struct)
		if !ok {
			sfail("modifies: not a struct")
		}
		for i := 0; i < stt.NumFields(); i++ {
			if stt.Field(i).Name() == x.Sel.Name {
				ft := stt.Field(i).Type()
				if at, ok := ft.Underlying().(*types.Array); ok {
					add(compArrT(at.Elem()), ex.embRef(ex.u.structOf(pt.Elem()), i, a.T))
				} else {
					add(compFieldT(pt.Elem(), i), a.T)
				}
				return
			}
		}
	case *ast.StarExpr:
		a := env.eval(x.X)
		pt, ok := a.Ty.Underlying().(*types.Pointer)
		if !ok {
			sfail("modifies *x: not a pointer")
		}
		switch tt := pt.Elem().Underlying().(type) {
		case *types.Struct:
			for i := 0; i < tt.NumFields(); i++ {
				ft := tt.Field(i).Type()
				if at, ok := ft.Underlying().(*types.Array); ok {
					add(compArrT(at.Elem()), ex.embRef(ex.u.structOf(pt.Elem()), i, a.T))
				} else {
					add(compFieldT(pt.Elem(), i), a.T)
				}
			}
		case *types.Array:
			add(compArrT(tt.Elem()), a.T)
		default:
			add(compCellT(pt.Elem()), a.T)
		}
		return
	}
	sfail("unsupported modifies location")
}


// niGoals: two-run (self-composition) obligations. For every pair of return
// paths the second run is a renamed copy of the first run's symbols; the two
// runs share all inputs except the contents of the secret locations; the
// results must be equal. Results of library calls are functions of their
// arguments (deterministic contracts), so equality is decided by congruence.
func (ex *Exec) niGoals(fc *FnCtx) {
	if len(ex.niReturns) == 0 || ex.ct == nil {
		return
	}
	low := func(name string) bool {
		for _, p := range []string{"p_", "A0_", "cg_", "strlit", "uf_", "impl_", "box_", "unbox_", "fv_"} {
			if strings.HasPrefix(name, p) {
				return true
			}
		}
		return false
	}
	secretConst := map[string]bool{}
	var lowEq []string
	if len(ex.niReturns) > 0 {
		// entry heap constants of the secret components
		for c, refs := range ex.niSecrets {
			id := ex.compIDs[c]
			for _, d := range ex.decls {
				f := strings.Fields(d)
				if len(f) > 2 && strings.HasPrefix(f[1], fmt.Sprintf("H0_%d_", id)) {
					secretConst[f[1]] = true
					var guard []string
					for _, r := range refs {
						guard = append(guard, "(not (= nir "+r.S+"))")
					}
					g := "true"
					if len(guard) == 1 {
						g = guard[0]
					} else if len(guard) > 1 {
						g = "(and " + strings.Join(guard, " ") + ")"
					}
					lowEq = append(lowEq, fmt.Sprintf("(assert (forall ((nir Int)) (! (=> %s (= (select %s nir) (select %s__2 nir))) :pattern ((select %s nir)) :pattern ((select %s__2 nir)))))", g, f[1], f[1], f[1], f[1]))
				}
			}
		}
	}
	// renamable symbols: declared constants and defined names that are not low inputs
	ren := map[string]bool{}
	var decl2 []string
	for _, d := range ex.decls {
		f := strings.Fields(d)
		if len(f) < 3 || f[0] != "(declare-const" {
			continue
		}
		n := f[1]
		if strings.HasPrefix(n, "H0_") {
			if !secretConst[n] {
				continue
			}
		} else if low(n) {
			continue
		}
		ren[n] = true
		decl2 = append(decl2, "(declare-const "+n+"__2 "+strings.TrimSuffix(strings.Join(f[2:], " "), ")")+")")
	}
	rename := func(l string) string {
		return reSym.ReplaceAllStringFunc(l, func(tok string) string {
			if ren[tok] {
				return tok + "__2"
			}
			return tok
		})
	}
	for _, r := range ex.niReturns {
		for _, l := range r.log {
			if strings.HasPrefix(l, "(define-fun ") {
				ren[strings.Fields(l)[1]] = true
			}
		}
	}
	props := ex.ct.Props
	for i, a := range ex.niReturns {
		for j, b := range ex.niReturns {
			var prefix []string
			prefix = append(prefix, a.log...)
			prefix = append(prefix, decl2...)
			for _, l := range b.log {
				prefix = append(prefix, rename(l))
			}
			prefix = append(prefix, lowEq...)
			var eqs []Term
			for k := range a.outs {
				if k < len(b.outs) {
					eqs = append(eqs, Term{"(= " + a.outs[k] + " " + rename(b.outs[k]) + ")", sBool})
				}
			}
			g := and(eqs...)
			ex.goals = append(ex.goals, &Goal{Name: fc.prefix + "#ni", Kind: "ni", Fn: ex.fn.String(), Props: props,
				Text: "non-interference: the result does not depend on the contents of " + secretList(ex.ct), Prefix: prefix, Goal: g, Expect: "unsat",
				PathTag: fmt.Sprintf("run1=%d[%s] run2=%d[%s]", i, a.tag, j, b.tag)})
		}
	}
}

func secretList(ct *Contract) string {
	var xs []string
	for _, c := range ct.Secrets {
		xs = append(xs, c.Text)
	}
	return strings.Join(xs, ", ")
}
